#!/usr/bin/env python3
"""Confirms a seeded change delivered by a sub-agent and runs the checks against it.

  tools/seeded.py confirm <prop> <agent-out-dir> <id>   -> verifies in a scratch worktree (build, existing tests,
                                                           demo fails with / passes without), stores /verif/seeded/<id>/
  tools/seeded.py detect <id> [--tier quick] [--props C01,C09]  -> applies seeded/<id>/patch.diff to /repo, runs the
                                                           checks, reverts /repo, records the outcome in meta.json
"""
import argparse
import json
import os
import re
import shutil
import subprocess
import sys
import time

VERIF = os.path.dirname(os.path.dirname(os.path.abspath(__file__)))
REPO = "/repo"
ENV = dict(os.environ, GOFLAGS="-mod=mod", GOPROXY="off", GOSUMDB="off", GOTOOLCHAIN="local")


def sh(cmd, cwd=None, timeout=1800):
    p = subprocess.run(cmd, cwd=cwd, shell=True, env=ENV, stdout=subprocess.PIPE, stderr=subprocess.STDOUT, text=True,
                       timeout=timeout)
    return p.returncode, p.stdout


def demo_dir(out_dir):
    notes = open(os.path.join(out_dir, "NOTES.md")).read() if os.path.exists(os.path.join(out_dir, "NOTES.md")) else ""
    src = open(os.path.join(out_dir, "demo_test.go")).read()
    m = re.search(r"^package\s+(\w+)", src, re.M)
    pkg = m.group(1) if m else ""
    if pkg.startswith("headers"):
        return "headers", notes
    return ".", notes


def confirm(prop, out_dir, sid):
    wt = "/tmp/seedchk_%s" % sid
    sh("git -C %s worktree remove --force %s" % (REPO, wt))
    rc, o = sh("git -C %s worktree add -q --detach %s HEAD" % (REPO, wt))
    if rc != 0:
        print(o)
        return 2
    res = {"id": sid, "property": prop, "source": out_dir, "confirmed": False}
    try:
        patch = os.path.join(out_dir, "patch.diff")
        rc, o = sh("git apply --check %s" % patch, cwd=wt)
        if rc != 0:
            res["error"] = "patch does not apply: " + o[-500:]
            return finish(res, sid, out_dir)
        d, notes = demo_dir(out_dir)
        demo_dst = os.path.join(wt, d, "zz_seed_demo_test.go")
        # without the change: demo passes
        shutil.copyfile(os.path.join(out_dir, "demo_test.go"), demo_dst)
        rc0, o0 = sh("go test -vet=off -count=1 -timeout 300s -run 'Demo|C[0-9][0-9]' ./%s" % d, cwd=wt)
        res["demo_without_change"] = "pass" if rc0 == 0 else "FAIL"
        os.remove(demo_dst)
        sh("git apply %s" % patch, cwd=wt)
        rc, o = sh("go build ./... && go build -tags verif ./...", cwd=wt)
        res["builds"] = rc == 0
        rc, o = sh("go test -vet=off -count=1 -timeout 600s ./... 2>&1 | grep -v Test_Handshake", cwd=wt)
        fails = [l for l in o.splitlines() if l.startswith("--- FAIL") and "Test_Handshake" not in l]
        res["existing_tests"] = "pass" if not fails else "FAIL " + ";".join(fails)[:300]
        shutil.copyfile(os.path.join(out_dir, "demo_test.go"), demo_dst)
        rc1, o1 = sh("go test -vet=off -count=1 -timeout 300s -run 'Demo|C[0-9][0-9]' ./%s" % d, cwd=wt)
        res["demo_with_change"] = "FAIL (as required)" if rc1 != 0 else "pass (change not demonstrated)"
        res["demo_output_with_change"] = "\n".join([l for l in o1.splitlines() if "FAIL" in l or "Error" in l or ".go:" in l][:8])
        res["confirmed"] = bool(res["builds"] and not fails and rc0 == 0 and rc1 != 0)
        res["notes"] = notes[:3000]
    finally:
        sh("git -C %s worktree remove --force %s" % (REPO, wt))
        shutil.rmtree(wt, ignore_errors=True)
    return finish(res, sid, out_dir)


def finish(res, sid, out_dir):
    print(json.dumps({k: v for k, v in res.items() if k != "notes"}, indent=1))
    if not res.get("confirmed"):
        print("NOT CONFIRMED - not kept")
        return 1
    dst = os.path.join(VERIF, "seeded", sid)
    os.makedirs(dst, exist_ok=True)
    shutil.copyfile(os.path.join(out_dir, "patch.diff"), os.path.join(dst, "patch.diff"))
    shutil.copyfile(os.path.join(out_dir, "demo_test.go"), os.path.join(dst, "demo_test.go.txt"))
    meta = {"id": sid, "breaks_property": res["property"],
            "needs_to_manifest": first_para(res.get("notes", "")),
            "confirmed_by": {"builds_with_and_without_verif_tag": res["builds"], "existing_tests": res["existing_tests"],
                             "demo_without_change": res["demo_without_change"], "demo_with_change": res["demo_with_change"]},
            "what_was_run": "scratch worktree of /repo HEAD: git apply; go build ./... (+ -tags verif); go test ./...; "
                            "demo test with and without the change (tools/seeded.py confirm)",
            "agent_notes": res.get("notes", ""), "detection": {}}
    with open(os.path.join(dst, "meta.json"), "w") as fh:
        json.dump(meta, fh, indent=1)
    return 0


def first_para(s):
    return s.strip()[:1200]


def detect(sid, tier, props):
    dst = os.path.join(VERIF, "seeded", sid)
    meta = json.load(open(os.path.join(dst, "meta.json")))
    props = props or [meta["breaks_property"]]
    rc, o = sh("git -C %s status --porcelain --untracked-files=no" % REPO)
    if o.strip():
        print("/repo has uncommitted changes; refusing")
        return 2
    rc, o = sh("git -C %s apply %s" % (REPO, os.path.join(dst, "patch.diff")))
    if rc != 0:
        print("patch does not apply to /repo: " + o)
        return 2
    out = {}
    try:
        for p in props:
            t0 = time.time()
            rc, o = sh("./check %s --tier %s" % (p, tier), cwd=VERIF, timeout=7200)
            viol = [l for l in o.splitlines() if l.startswith("VIOLATION")]
            detail = [l.strip() for l in o.splitlines() if l.startswith("  ")][:3]
            out[p] = {"exit": rc, "detected": rc == 1 and bool(viol), "violations": len(viol), "first": detail,
                      "wall_s": round(time.time() - t0, 1), "tier": tier}
            print(sid, p, "exit", rc, "DETECTED" if out[p]["detected"] else "missed", detail[:1])
    finally:
        sh("git -C %s checkout -- ." % REPO)
    meta["detection"].update(out)
    with open(os.path.join(dst, "meta.json"), "w") as fh:
        json.dump(meta, fh, indent=1)
    return 0


def main():
    ap = argparse.ArgumentParser()
    ap.add_argument("cmd", choices=["confirm", "detect"])
    ap.add_argument("args", nargs="*")
    ap.add_argument("--tier", default="quick")
    ap.add_argument("--props", default="")
    a = ap.parse_args()
    if a.cmd == "confirm":
        sys.exit(confirm(*a.args))
    sys.exit(detect(a.args[0], a.tier, [p for p in a.props.split(",") if p]))


if __name__ == "__main__":
    main()
