#!/bin/sh
# usage: tools/run_all.sh quick C01 C07 ...   -> one summary line per property
tier=$1; shift
cd "$(dirname "$0")/.."
for p in "$@"; do
  s=$(date +%s)
  out=$(./check $p --tier $tier 2>&1); rc=$?
  e=$(date +%s)
  echo "$p rc=$rc $((e-s))s $(echo "$out" | grep -E 'VIOLATION|KNOWN-FINDING|INFRA' | head -3 | cut -c1-200)"
  [ $rc -ne 0 ] && echo "$out" | grep -A1 VIOLATION | head -6 | cut -c1-300
done
