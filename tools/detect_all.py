#!/usr/bin/env python3
"""Re-runs the quick check of its property against every confirmed seeded change, in parallel, without touching
/repo: each job gets its own scratch worktree of /repo (patch applied) and its own scratch worktree of /verif.

  tools/detect_all.py [-j 3] [ids...]      results: /tmp/detect_all.log and seeded/<id>/meta.json ("detection")
"""
import concurrent.futures as cf
import json
import os
import subprocess
import sys
import time

VERIF = os.path.dirname(os.path.dirname(os.path.abspath(__file__)))
ENV = dict(os.environ, GOFLAGS="-mod=mod", GOPROXY="off", GOSUMDB="off", GOTOOLCHAIN="local")


def sh(cmd, cwd=None, timeout=3600, env=None):
    p = subprocess.run(cmd, cwd=cwd, shell=True, env=env or ENV, stdout=subprocess.PIPE, stderr=subprocess.STDOUT, text=True,
                       timeout=timeout)
    return p.returncode, p.stdout


def job(sid, slot):
    meta_path = os.path.join(VERIF, "seeded", sid, "meta.json")
    meta = json.load(open(meta_path))
    prop = meta.get("breaks_property") or sid.split("-")[0][:3]
    # per process and slot: two detect_all runs at the same time must not share scratch worktrees
    repo = "/tmp/det_repo_%d_%d" % (os.getpid(), slot)
    ver = "/tmp/det_verif_%d_%d" % (os.getpid(), slot)
    sh("git -C /repo worktree remove --force %s; git -C /repo worktree add --detach %s HEAD" % (repo, repo))
    rc, o = sh("git apply %s" % os.path.join(VERIF, "seeded", sid, "patch.diff"), cwd=repo)
    if rc != 0:
        return sid, prop, "patch does not apply", o[-300:]
    sh("git -C %s worktree remove --force %s; git -C %s worktree add --detach %s HEAD" % (VERIF, ver, VERIF, ver))
    # uncommitted work in /verif is part of what is being tested
    sh("rsync -a --exclude .git --exclude evidence --exclude replays --exclude __pycache__ %s/ %s/" % (VERIF, ver))
    t0 = time.time()
    rc, o = sh("./check %s --tier quick" % prop, cwd=ver, env=dict(ENV, VERIF_REPO=repo), timeout=5400)
    viol = [l.strip() for l in o.splitlines() if l.startswith("  ") and l.strip()][:1]
    verdict = "DETECTED" if rc == 1 and "VIOLATION" in o else ("exit %d" % rc)
    meta["detection"] = {"check": "./check %s --tier quick" % prop, "exit": rc, "verdict": verdict,
                         "first_violation": viol[0][:400] if viol else "", "wall_s": round(time.time() - t0)}
    json.dump(meta, open(meta_path, "w"), indent=1)
    sh("git -C /repo worktree remove --force %s" % repo)
    sh("git -C %s worktree remove --force %s" % (VERIF, ver))
    return sid, prop, verdict, viol[0][:200] if viol else ""


def main():
    args = sys.argv[1:]
    par = 3
    if args[:1] == ["-j"]:
        par = int(args[1])
        args = args[2:]
    ids = args or sorted(d for d in os.listdir(os.path.join(VERIF, "seeded")) if os.path.exists(
        os.path.join(VERIF, "seeded", d, "patch.diff")))
    slots = list(range(par))
    with open("/tmp/detect_all.log", "a") as log, cf.ThreadPoolExecutor(max_workers=par) as ex:
        import queue
        q = queue.Queue()
        for s in slots:
            q.put(s)

        def run(sid):
            s = q.get()
            try:
                return job(sid, s)
            except Exception as e:  # noqa
                return sid, "?", "error", str(e)[:200]
            finally:
                q.put(s)
        for r in ex.map(run, ids):
            line = "%s %s %s %s" % r
            print(line, flush=True)
            log.write(line + "\n")
            log.flush()


if __name__ == "__main__":
    main()
