#!/usr/bin/env python3
"""Regenerates /verif/MANIFEST.json from the table below (keeps it schema-valid)."""
import json
import os

VERIF = os.path.dirname(os.path.dirname(os.path.abspath(__file__)))

HDR_NOTE = ("Trusted: TLC; the dependency's ConvertToWork/ConvertToDifficulty and SHA-256; fabricated headers with "
            "difficulty and split protection disabled (C02/C03 cover those paths). Where several tips have equal work the spec leaves "
            "the choice open and the replay follows the behaviour whose choices are the implementation's (DESIGN.md AB.2); "
            "submissions whose parent the properties do not promise is still in memory are not generated (DESIGN.md 2.2).")

CHECKS = {
    "C01": dict(level="model_checking", engine="headers", ref="3 C01",
                text="TipMaxWork / NoWorkLoss checked exhaustively by TLC on HeaderChain (all tree shapes over N pool blocks); "
                     "TLC-generated behaviours (simulation, and bounded-exhaustive BFS in thorough) replayed on the real "
                     "headers.Repository at stretch factors 1,3,400(,real prune depth): tip, height, work and the hash/header "
                     "at every height compared with the spec after every operation (incl. equal-work ties and version-0 / empty "
                     "stores, Load at any point while the store is the image of one Save, Load on the repository object in use). Schedules: several peer goroutines, a maintenance caller and a (slow or 10000-behind) subscriber "
                     "run concurrently on the real repository; the recorded calls are linearized by TLC (HeaderChainLin).",
                technique="TLA+ model checking (TLC) + spec-to-code behaviour replay + linearization of concurrent traces by TLC"),
    "C07": dict(level="model_checking", engine="headers", ref="3 C07",
                text="StreamReconstructs / OnlyBestAnnounced are consequences checked by TLC of the operationally specified "
                     "stream; on the real repository every subscriber channel is drained after every operation and compared "
                     "with the spec's delta, and the subscriber's own reconstruction is compared with the reported chain. Schedules: "
                     "concurrent peers with a subscriber that is slow or 10000 headers behind (channel full); TLC linearizes "
                     "the recorded calls (HeaderChainLin) and the reconstruction must be the reported chain. Fixed-shape families "
                     "with a subscriber: fork of a fork (also across a Clean), main / side branch / cousin / branch of the side branch.",
                technique="TLA+ model checking (TLC) + spec-to-code behaviour replay + linearization of concurrent traces by TLC"),
    "C08": dict(level="model_checking", engine="headers", ref="3 C08",
                text="Submit's case list is the reference verdict; RefusalChangesNothing is an action property checked by TLC "
                     "for MaxDepth 0..2; replay compares the error class of every submission, the full projection before/after "
                     "every refusal, and the bytes a Save writes with and without the refused submissions (twin repository).",
                technique="TLA+ model checking (TLC) + spec-to-code behaviour replay with twin-repository comparison"),
    "C09": dict(level="model_checking", engine="headers", ref="3 C09",
                text="Lookup(b)/ranges are pure functions of the spec state; replay looks up every pool header (first and last "
                     "of its run) through HashHeight, CheckHeader, GetHeader, PreviousHash and ranges after every operation, "
                     "with pruning depths small enough that memory and storage paths are both exercised.",
                technique="TLA+ model checking (TLC) + spec-to-code behaviour replay"),
    "C10": dict(level="model_checking", engine="headers", ref="3 C10",
                text="CleanChangesNothing is an action property checked by TLC; replay inserts Clean at every position TLC "
                     "chooses and compares the whole projection before and after plus the spec's expectation for later "
                     "submissions; stretch crosses file boundaries and prune depth.",
                technique="TLA+ model checking (TLC) + spec-to-code behaviour replay"),
    "C11": dict(level="model_checking", engine="headers", ref="3 C11",
                text="SaveLoadSame checked by TLC; replay loads a fresh Repository from the MockStorage after Save and "
                     "continues the behaviour on it (tip, chain, lookups, stored invalid list, later verdicts), directly after the "
                     "Save or after further submissions (which are then submitted again); LoadLegacy: "
                     "stores holding only version-0 header files (migration) and empty stores are loaded first.",
                technique="TLA+ model checking (TLC) + spec-to-code behaviour replay"),
    "C12": dict(level="fault_enumeration", engine="headers", ref="3 C12",
                text="Every prefix of the journalled Write/Remove sequence of every Clean and Save in the TLC behaviours is "
                     "materialised as a storage image and loaded; the spec's Reload relation (loads, linked from genesis, only "
                     "ever-accepted headers, work >= last completed save) is the oracle. HeaderStore.tla models the two stores of the "
                     "best chain and the order of the writes: CrashSoundShallow holds for every crash point, CrashSound without the "
                     "deep-reorganisation exemption yields the trace of known finding F-C12-1.",
                technique="crash-point enumeration over TLC-generated behaviours with the TLA+ Reload relation as oracle"),
    "C17": dict(level="model_checking", engine="headers", ref="3 C17",
                text="MarkedExcluded / FallsBack checked by TLC on the Mark family; replay marks every kind of header TLC "
                     "chooses (best chain, side branch, unseen) and compares tip, chain, best-chain flags, later verdicts and "
                     "the stored invalid list across Save/Load.",
                technique="TLA+ model checking (TLC) + spec-to-code behaviour replay"),
    "C19": dict(level="model_checking", engine="headers", ref="3 C19",
                text="Locators returned by the real repository at seed-chosen points of TLC behaviours (maxima 1,3,10,50; "
                     "stretch 1,3,7) and the outcome of submitting a protocol-conformant peer's reply for every pool chain are "
                     "recorded and judged by TLC against HeaderLocatorTrace (well-formedness, peer continuation); on the real "
                     "mainnet chain across the split height, starting from a repository that holds only its tip (LocatorLinear).",
                technique="TLA+ trace validation (TLC) of recorded locators + peer-reply probe"),
}

SESS_NOTE = ("Trusted: TLC; the scripted peer's own framing code; net.Pipe. The scripted peer waits for the handshake goroutine to "
             "go quiet after version/verack, so asynchronous interleavings are covered by the exhaustive PeerSession cfg only; "
             "timeouts (3 s handshake, 10 min ping, 4 h node) are not exercised.")

CHECKS.update({
    "C04": dict(level="model_checking", engine="blockverify", ref="3 C04",
                text="SideEffectsOnlyIfVerified / ConfirmsAreRelevantInOrderOnce / EveryProofVerifies / Terminates checked by TLC "
                     "over every case of BlockVerify.tla (committed block x relevant subset x corrupted stream x announced count "
                     "x fault), merkle roots as terms; every one of those cases is then executed with real transactions on a "
                     "real BlockDownloader.HandleBlock and the recorded processor / store calls, proofs (Verify, txid, header) "
                     "and Complete value are compared with the spec.",
                technique="TLA+ model checking (TLC) + exhaustive case replay on the real block downloader",
                note="Trusted: TLC; SHA-256 collision freedom (roots are terms); the harness's own merkle root computation; "
                     "MerkleProof.Verify of the dependency. The node-side framing of block messages is covered by C14/C16."),
    "C06": dict(level="model_checking", engine="txmanager", ref="3 C06",
                text="ForwardedAtMostOnce, OnePeerPerStep, NeverAfterDelivery, Requestable, OneOutstandingPerWindow, "
                     "OnlyAnnouncersAsked, HeldBackStaysDue checked by TLC on TxManager.tla; every call sequence up to the BFS "
                     "depth plus simulated deeper ones replayed on the real TxManager (replies, processor and saver counts); "
                     "rounds of concurrent calls recorded from the real TxManager are linearized by TLC (TxManagerLin); "
                     "connection-level traces (three verified peers, real BitcoinNodes + NodeManager.RequestTxs sharing one "
                     "TxManager) are validated against the same spec.",
                technique="TLA+ model checking (TLC) + behaviour replay + linearization of concurrent traces by TLC",
                note="Trusted: TLC. One Tick = VerifAgeRequests(request timeout); real time between calls is microseconds "
                     "against a one hour timeout. TxManager.Clean is modelled as CleanAll (everything forgotten; exactly once per retention period)."),
    "C13": dict(level="model_checking", engine="session", ref="3 C13",
                text="NoSinkBeforeReady, ReadyNeedsHandshakeAndBSV, VerifyOnlyDisconnects checked by TLC on PeerSession.tla "
                     "(read loop + asynchronous handshake goroutine); sessions enumerated by TLC (all classes, BFS and "
                     "simulation, full and verify-only nodes, with and without tx manager) are played by a scripted peer against "
                     "a real BitcoinNode over net.Pipe with spies on the header repository, address book and tx processor. "
                     "Selection: SelectedIsReady / FindsOne checked by TLC on NodeSelect.tla (the manager's list walk); its "
                     "behaviours are replayed on the real NodeManager with real nodes in the states unverified (3 sub-states) / "
                     "ready / busy / stopped and a request must never reach an unverified peer. Verify-only disconnect: also for a "
                     "verifying headers message that stops short of its declared length (VerifyOnlyNeverWaits) and for a peer that "
                     "never reads (OutChannel.tla: StopCompletes / NobodyLeftBlocked with an unfair peer; the reverse closing order is "
                     "rejected by TLC on every run and its blocked schedule is played on the real node; thorough: Apalache establishes "
                     "the structural invariant of OutChannel inductively for every capacity 1..1000).",
                technique="TLA+ model checking (TLC) + spec-generated sessions replayed on the real node", note=SESS_NOTE),
    "C14": dict(level="model_checking", engine="session", ref="3 C14",
                text="PingAnswered, NeverDeafWhileReady (only a message cut short makes the read loop wait), InSyncWhileReady checked by TLC on PeerSession.tla; conformant "
                     "sessions of a verified peer over the full command set (known / unknown / handler-less commands, classic and "
                     "extended framing, payload sizes 0..64 KiB, 4 MiB in thorough, repetition runs) are played against the real "
                     "node; after every message a ping must be answered with its nonce.",
                technique="TLA+ model checking (TLC) + spec-generated sessions replayed on the real node", note=SESS_NOTE),
    "C02": dict(level="model_checking", engine="daa", ref="3 C02",
                text="Daa.tla transcribes the network's 144-block rule as a case analysis (median-of-three by the network's "
                     "swap network, signed span clamped to [72,288] blocks); SelectsMedian / SpanInRange checked by TLC over every "
                     "timestamp pattern of the six endpoint blocks; every case (4096 in quick) is built as a real 150-header chain "
                     "with distinct bits, on the main chain, on a fork, after forks at the endpoint blocks and as a chain of one-unit-of-work headers (Projected1: the cap where nothing is left to project), and the bits the real code requires are compared with "
                     "the network's formula applied to the endpoints and span TLC selected. Plus: all 2820 real fixture headers "
                     "with the difficulty check on, also after a 2 / 3 header fork overtook the real chain; easy-target headers with wrong bits on the tip and as fork headers; "
                     "single-field mutations of real headers with an independently predicted verdict; all 256 exponent bytes x "
                     "mantissa classes in an isolated worker.",
                technique="TLA+ case enumeration (TLC) + exhaustive case replay on real header chains",
                note="Trusted: TLC; SHA-256; the harness's 256-bit formulas (network's ComputeTarget, GetBlockProof, compact "
                     "encoding), pinned to mainnet by the fixture chains. Case chains are queried through the VerifTarget hook."),
    "C03": dict(level="model_checking", engine="split+session", ref="3 C03",
                text="AtSplitOnlyBSV / ForeignAlwaysRefused / BSVAccepted checked by TLC on SplitGuard.tla (every order of offers "
                     "around the split height: real chain, BSV and BCH split headers, other headers at the split height on the "
                     "main chain and on forks created below it, a heavier fork of a fork with maintenance at any point, unknown parents); those offer sequences are replayed on a mainnet "
                     "headers.Repository built on the real fixture chain with split protection on (and, sampled, with the "
                     "difficulty check on). Peer side: OnlyBSVVerifies / ReadyNeedsHandshakeAndBSV on PeerSession.tla and every "
                     "class of reply to the verification request, at every handshake position, for full and verify-only nodes, "
                     "played against a real BitcoinNode.",
                technique="TLA+ model checking (TLC) + spec-generated offer sequences and sessions replayed on the real code",
                note="Trusted: TLC; the fixture headers of the repository. The BTC split header's 80 bytes are not available "
                     "offline: its table entry is compared with the spec's constants and it shares the code path of the BCH entry."),
    "C05": dict(level="model_checking", engine="blocksync", ref="3 C05",
                text="NeverBelowStart, NeverProcessed, AscendingContiguous, NoLostTrigger and the temporal property SyncCompletes "
                     "(weak fairness) checked by TLC on BlockSync.tla (rounds, restart flag and thread hand-over, new headers and "
                     "reorganisations during a round, abandoning orphaned blocks). Every initial state (chain length x processed "
                     "subset x start height) is exported and its round replayed on the real NodeManager + BlockManager + "
                     "BlockDownloader with a real headers.Repository and a scripted block source; seed-chosen dynamic scenarios "
                     "(triggers and headers mid-round, source failures, 1 and 2 concurrent downloads, reorg of a pending block, "
                     "reorg after the rounds completed, reorg before the k-th repository read of a round, a slow first source) "
                     "are recorded and validated by TLC (BlockSyncTrace) with the C05 invariants evaluated at every step; the "
                     "trigger hand-over is stressed with aligned header arrivals.",
                technique="TLA+ model checking incl. liveness (TLC) + scenario replay + trace validation by TLC",
                note="Trusted: TLC; the scripted block source. Start heights >= 1 (the real genesis block cannot be fabricated). "
                     "Known finding F-C05-1 (double processing by two near-simultaneous concurrent downloads) is reported, not judged."),
    "C15": dict(level="exploration", engine="hostile", ref="3 C15",
                text="Byte-level universality cannot be model checked; the spec (PeerSession.tla) contributes the phase x message "
                     "class structure and the oracle: after any input a session is in sync or closed, there is no crash action. "
                     "Hostile inputs from 23 mutation operators (incl. headers messages cut after an acceptable first header, with an alternate header handler installed in a third of the sessions) are delivered before the handshake, during verification and when "
                     "ready (with / without tx manager, verify-only, block request outstanding) to a real BitcoinNode in "
                     "isolated, address-space-limited worker processes; a dead worker, a Run that does not return after the "
                     "connection closes, or a broken second connection is a violation.",
                technique="seeded mutation exploration in isolated workers with a TLA+ envelope as oracle",
                note="Sampled, not exhaustive. Workers run with a 3 GiB address-space limit so that allocations sized by hostile "
                     "counts abort them. Known finding F-C15-1 (allocations inside the wire dependency) is reported, not judged."),
    "C18": dict(level="model_checking", engine="headers", ref="3 C18",
                text="ValidVerifies / CorruptFails checked by TLC on MerkleProofs.tla (merkle trees as terms: every shape, "
                     "position and single-element corruption, recording whether the corrupted proof still recomputes the root); "
                     "every case is instantiated as a real MerkleProof (built by the harness's own tree code) for a header on the "
                     "best chain, on a side branch, in pruned history or unknown, with header or hash only, and handed to "
                     "VerifyMerkleProof; in addition proofs into every pool block are verified after every operation of "
                     "TLC-generated repository behaviours (height and best-chain flag judged against the reported chain).",
                technique="TLA+ model checking (TLC) + exhaustive case replay + spec-to-code behaviour replay"),
    "C16": dict(level="model_checking", engine="blockdownload", ref="3 C16",
                text="NoSendBlocked, CompleteOnlyAfterOk and the temporal property Triggered ~> Run returned (weak fairness, no "
                     "timeouts) checked by TLC on BlockDownload.tla over every interleaving of Run, the node's handleBlock, "
                     "Cancel, Stop and interrupt; AtMostOneTerminal, CompleteOnlyAfterOk, ConcurrencyBound, ListDrains on "
                     "BlockManage.tla. Every behaviour of BlockDownloadGen is replayed on a real BlockDownloader, at quiescence granularity and again without waiting for "
                     "quiescence (racing events, late start of Run; judged by RunReturns / NoSendBlocked); the node-side "
                     "window runs on the real BitcoinNode over net.Pipe with seed-chosen schedules (incl. blocks larger than the 1000-slot "
                     "hand-over channel with a held processor); traces of the real "
                     "BlockManager with a scripted block source are validated by TLC against BlockManage.tla. Shutdown with a full "
                     "request queue: StopCompletes / NobodyLeftBlocked on RequestQueue.tla (silent peers are not fair; the reverse "
                     "closing order is rejected by TLC on every run) and its blocked schedule played on the real BlockManager.",
                technique="TLA+ model checking incl. liveness (TLC) + behaviour replay + trace validation by TLC",
                note="Trusted: TLC. The downloader's 2 min / 1 h / 10 min timers are not relied upon. In the call-granularity "
                     "replay the node side is a mirror of BitcoinNode's request bookkeeping; the real node is exercised by the "
                     "node-window schedules. Known finding F-C16-1 (silent peer) is reported, not judged."),
    "C20": dict(level="model_checking", engine="peerbook", ref="3 C20",
                text="NoDuplicates, GetExact, SaveLoadSame, CutKeepsPrefix, ScoreIsSum checked by TLC on PeerBook.tla; simulated "
                     "call sequences replayed on the real StoragePeerRepository with the whole book compared after every call; "
                     "every proper prefix of every saved file loaded (fault enumeration); generated hostile files loaded in "
                     "isolated worker processes; concurrent callers (incl. Saves on a storage whose writes take a while, with "
                     "per-caller program order) linearized by TLC (PeerBookLin) with the stored file compared at the end.",
                technique="TLA+ model checking (TLC) + behaviour replay + file-prefix enumeration + linearization by TLC",
                note="Trusted: TLC. Last-seen times are wall-clock seconds: compared as zero/non-zero with the spec and for "
                     "exact equality across Save+Load."),
})

NOT_APPLICABLE = []


def main():
    props = [json.loads(l)["id"] for l in open(os.path.join(VERIF, "properties.jsonl"))]
    checks = []
    for pid in props:
        if pid not in CHECKS:
            continue
        c = CHECKS[pid]
        checks.append({
            "property_id": pid,
            "quick_cmd": "./check %s --tier quick" % pid,
            "thorough_cmd": "./check %s --tier thorough" % pid,
            "evidence_file": "/verif/evidence/%s.json" % pid,
            "replay_cmd_template": "./check %s --replay {path}" % pid,
            "engine": c["engine"],
            "level_claimed": {"category": c["level"], "text": c["text"], "design_ref": "DESIGN.md section " + c["ref"]},
            "level_note": c.get("note", HDR_NOTE),
            "technique": c["technique"],
        })
    na = list(NOT_APPLICABLE)
    claimed = {c["property_id"] for c in checks}
    listed = {n["property_id"] for n in na}
    for pid in props:
        if pid not in claimed and pid not in listed:
            na.append({"property_id": pid, "reason": "check not built yet (in progress; see DESIGN.md section 7)"})
    m = {
        "version": 1,
        "setup_cmd": "./setup.sh",
        "hooks": {
            "guard": "verif",
            "enable": "go build -tags verif (the harness in /verif/harness replaces github.com/tokenized/bitcoin_reader with /repo)",
            "baseline_off_cmd": "cd /repo && GOFLAGS=-mod=mod GOPROXY=off GOSUMDB=off go test -json -vet=off -count=1 -timeout 25m ./...",
            "source_commits": open(os.path.join(VERIF, "tools", "hook_commits.txt")).read().split(),
            "add_only": True,
        },
        "engines": [
            {"name": "headers", "path": "lib/engine_headers.py",
             "serves_properties": ["C01", "C07", "C08", "C09", "C10", "C11", "C12", "C17", "C18", "C19"],
             "kind_free_text": "specs/HeaderChain.tla (exhaustive TLC), specs/HeaderChainGen.tla (behaviour generation), "
                               "harness `hdr` replay on the real headers.Repository, specs/HeaderLocatorTrace.tla, LocatorLinear.tla, "
                               "MerkleProofs.tla, specs/HeaderChainLin.tla + harness `hdrc` (concurrent peers)"},
            {"name": "blockverify", "path": "lib/prop_c04.py", "serves_properties": ["C04"],
             "kind_free_text": "specs/BlockVerify.tla, harness `blk` on the real BlockDownloader"},
            {"name": "txmanager", "path": "lib/prop_c06.py", "serves_properties": ["C06"],
             "kind_free_text": "specs/TxManager.tla, TxManagerGen.tla, TxManagerLin.tla, harness `txm` / `txmc`"},
            {"name": "session", "path": "lib/engine_session.py", "serves_properties": ["C13", "C14"],
             "kind_free_text": "specs/PeerSession.tla, PeerSessionGen.tla, harness `sess` (scripted peer over net.Pipe); "
                               "specs/NodeSelect.tla, NodeSelectGen.tla, harness `nsel` (real NodeManager)"},
            {"name": "daa", "path": "lib/prop_c02.py", "serves_properties": ["C02"],
             "kind_free_text": "specs/Daa.tla, harness `daa` (cases / real / mutate / bits)"},
            {"name": "split+session", "path": "lib/prop_c03.py", "serves_properties": ["C03"],
             "kind_free_text": "specs/SplitGuard.tla + harness `spl`; specs/PeerSession*.tla + harness `sess`"},
            {"name": "blocksync", "path": "lib/prop_c05.py", "serves_properties": ["C05"],
             "kind_free_text": "specs/BlockSync.tla, BlockSyncTrace.tla, harness `bsy` (rounds / traces / stress)"},
            {"name": "hostile", "path": "lib/prop_c15.py", "serves_properties": ["C15"],
             "kind_free_text": "harness `hostile` (isolated workers) with specs/PeerSession.tla as envelope"},
            {"name": "blockdownload", "path": "lib/prop_c16.py", "serves_properties": ["C16"],
             "kind_free_text": "specs/BlockDownload.tla, BlockDownloadGen.tla, BlockManage.tla, BlockManageTrace.tla, harness `bdl` / `bdn` / `bmg`"},
            {"name": "peerbook", "path": "lib/prop_c20.py", "serves_properties": ["C20"],
             "kind_free_text": "specs/PeerBook.tla, PeerBookGen.tla, PeerBookLin.tla, harness `peers` / `peersbytes` / `peersconc`"},
        ],
        "checks": checks,
        "not_applicable": na,
        "notes": "All checks: exit 0 held / 1 VIOLATION / 2 infrastructure. Known findings: known_findings.json.",
    }
    with open(os.path.join(VERIF, "MANIFEST.json"), "w") as fh:
        json.dump(m, fh, indent=1)
    print("MANIFEST.json: %d checks, %d not applicable" % (len(checks), len(na)))


if __name__ == "__main__":
    main()
