"""Shared machinery of the /verif checks: scratch dirs, TLC runner, harness build, evidence,
known findings, verdict reporting.

Exit codes of a check:  0 property held on everything explored (KNOWN-FINDING lines allowed)
                        1 VIOLATION (an observation of the real code contradicts the spec)
                        2 infrastructure problem (build failure, TLC timeout, dead driver) - never a violation
"""
import ast
import hashlib
import json
import os
import re
import shutil
import subprocess
import sys
import tempfile
import time

VERIF = os.path.dirname(os.path.dirname(os.path.abspath(__file__)))
REPO = os.environ.get("VERIF_REPO", "/repo")
SPECS = os.path.join(VERIF, "specs")
HARNESS = os.path.join(VERIF, "harness")
EVIDENCE = os.path.join(VERIF, "evidence")
REPLAYS = os.path.join(VERIF, "replays")
NCPU = os.cpu_count() or 4

GOENV = dict(os.environ, GOFLAGS="-mod=mod", GOPROXY="off", GOSUMDB="off", GOTOOLCHAIN="local")


class Infra(Exception):
    """Infrastructure failure: exit 2, never a violation."""


def seed():
    try:
        return int(os.environ.get("VERIF_SEED", "1"))
    except ValueError:
        return 1


class Scratch:
    def __init__(self, tag="vf"):
        self.tag = tag
        self.path = None

    def __enter__(self):
        base = os.environ.get("VERIF_SCRATCH") or tempfile.gettempdir()
        self.path = tempfile.mkdtemp(prefix="verif_%s_" % self.tag, dir=base)
        return self.path

    def __exit__(self, *a):
        if os.environ.get("VERIF_KEEP"):
            sys.stderr.write("scratch kept: %s\n" % self.path)
        else:
            shutil.rmtree(self.path, ignore_errors=True)


_harness_cache = {}


def build_harness(scratch, race=False):
    """Builds the Go harness against /repo's current working tree with the verif tag."""
    key = (scratch, race)
    if key in _harness_cache:
        return _harness_cache[key]
    out = os.path.join(scratch, "verifharness" + ("_race" if race else ""))
    # build from a copy of the harness sources whose go.mod points at the repository under test
    # (VERIF_REPO, default /repo) with that repository's go.sum
    src = os.path.join(scratch, "harness_src")
    if not os.path.isdir(src):
        shutil.copytree(HARNESS, src, ignore=shutil.ignore_patterns("verifharness*"))
        gm = open(os.path.join(src, "go.mod")).read()
        gm = re.sub(r"replace github.com/tokenized/bitcoin_reader => \S+", "replace github.com/tokenized/bitcoin_reader => " + REPO, gm)
        with open(os.path.join(src, "go.mod"), "w") as fh:
            fh.write(gm)
        try:
            shutil.copyfile(os.path.join(REPO, "go.sum"), os.path.join(src, "go.sum"))
        except OSError:
            pass
    cmd = ["go", "build", "-tags", "verif"] + (["-race"] if race else []) + ["-o", out, "."]
    p = subprocess.run(cmd, cwd=src, env=GOENV, stdout=subprocess.PIPE, stderr=subprocess.STDOUT, text=True)
    if p.returncode != 0:
        raise Infra("harness build failed (does the repository still compile with -tags verif?):\n" + p.stdout[-4000:])
    _harness_cache[key] = out
    return out


def run_harness(binary, args, stdin_path=None, timeout=3600, env=None):
    e = dict(GOENV)
    if env:
        e.update(env)
    stdin = open(stdin_path, "rb") if stdin_path else subprocess.DEVNULL
    try:
        p = subprocess.run([binary] + args, stdin=stdin, stdout=subprocess.PIPE, stderr=subprocess.PIPE,
                           timeout=timeout, env=e)
    except subprocess.TimeoutExpired:
        raise Infra("harness timed out: %s" % " ".join(args))
    finally:
        if stdin_path:
            stdin.close()
    return p.returncode, p.stdout.decode("utf-8", "replace"), p.stderr.decode("utf-8", "replace")


TLC_JAR = "/opt/veriftools/tla/tla2tools.jar"


def run_tlc(scratch, module, cfg_text, files=None, workers=None, timeout=900, simulate=None, depth=None,
            tlc_seed=None, extra=None, heap=None, name=None, env=None):
    """Runs TLC on specs/<module>.tla with the given cfg text in a private directory.
    Returns (stdout, stats). Raises Infra on timeout / crash of TLC itself."""
    name = name or module
    d = tempfile.mkdtemp(prefix="tlc_%s_" % name, dir=scratch)
    for f in os.listdir(SPECS):
        if f.endswith(".tla"):
            shutil.copyfile(os.path.join(SPECS, f), os.path.join(d, f))
    for fn, content in (files or {}).items():
        with open(os.path.join(d, fn), "w") as fh:
            fh.write(content)
    with open(os.path.join(d, name + ".cfg"), "w") as fh:
        fh.write(cfg_text)
    cmd = ["tlc", "-workers", str(workers or 1), "-metadir", os.path.join(d, "md"), "-noGenerateSpecTE",
           "-config", name + ".cfg"]
    if simulate is not None:
        cmd += ["-simulate", "num=%d" % simulate]
        if depth:
            cmd += ["-depth", str(depth)]
        if tlc_seed is not None:
            cmd += ["-seed", str(tlc_seed)]
    elif depth:
        cmd += ["-depth", str(depth)]
    if extra:
        cmd += extra
    cmd += [module + ".tla"]
    e = dict(os.environ)
    if env:
        e.update(env)
    t0 = time.time()
    try:
        p = subprocess.run(cmd, cwd=d, stdout=subprocess.PIPE, stderr=subprocess.STDOUT, timeout=timeout, env=e)
    except subprocess.TimeoutExpired:
        subprocess.run(["pkill", "-f", d], stdout=subprocess.DEVNULL, stderr=subprocess.DEVNULL)
        raise Infra("TLC timed out after %ds: %s" % (timeout, " ".join(cmd)))
    out = p.stdout.decode("utf-8", "replace")
    stats = parse_tlc(out)
    stats["wall_s"] = round(time.time() - t0, 2)
    stats["rc"] = p.returncode
    stats["dir"] = d
    return out, stats


def parse_tlc(out):
    st = {"generated": 0, "distinct": 0, "violation": None, "error": None}
    m = re.findall(r"(\d[\d,]*) states generated, (\d[\d,]*) distinct states found", out)
    if m:
        st["generated"] = int(m[-1][0].replace(",", ""))
        st["distinct"] = int(m[-1][1].replace(",", ""))
    m = re.search(r"Invariant (\S+) is violated", out)
    if m:
        st["violation"] = m.group(1)
    m = re.search(r"(Temporal properties were violated|Action property \S+ is violated|is violated)", out)
    if m and not st["violation"]:
        st["violation"] = m.group(1)
    if "Error:" in out and not st["violation"]:
        i = out.index("Error:")
        st["error"] = out[i:i + 600]
    m = re.search(r"The depth of the complete state graph search is (\d+)", out)
    if m:
        st["diameter"] = int(m.group(1))
    return st


def run_apalache(scratch, module, args, timeout=900, name=None):
    """apalache-mc check ... on specs/<module>.tla in a private directory; returns (ok, tail of the output)."""
    d = tempfile.mkdtemp(prefix="apa_%s_" % (name or module), dir=scratch)
    for f in os.listdir(SPECS):
        if f.endswith(".tla"):
            shutil.copyfile(os.path.join(SPECS, f), os.path.join(d, f))
    try:
        p = subprocess.run(["apalache-mc", "check"] + args + [module + ".tla"], cwd=d, stdout=subprocess.PIPE,
                           stderr=subprocess.STDOUT, text=True, timeout=timeout)
    except subprocess.TimeoutExpired:
        raise Infra("apalache timed out on %s %s" % (module, args))
    out = p.stdout
    return "EXITCODE: OK" in out, out[-1500:]


def tlc_ok(out, stats, what):
    if stats.get("violation") or stats.get("error") or "Model checking completed. No error has been found." not in out:
        raise Infra("TLC did not complete cleanly for %s: violation=%s error=%s\n%s" % (
            what, stats.get("violation"), stats.get("error"), out[-3000:]))


_printed = re.compile(r'^<<"([A-Z]+)", (.*)>>$')


def printed(out, tag):
    """Extracts the JSON payloads of PrintT(<<"TAG", ToJson(x)>>) lines, de-duplicated, in order."""
    seen = set()
    res = []
    for line in out.splitlines():
        if not line.startswith('<<"' + tag + '"'):
            continue
        m = _printed.match(line.strip())
        if not m:
            continue
        try:
            s = ast.literal_eval(m.group(2))
        except Exception:
            continue
        if s in seen:
            continue
        seen.add(s)
        res.append(s)
    return res


def printed_tuples(out, tag):
    """Extracts PrintT(<<"TAG", a, b, ...>>) values as python tuples (strings/ints).  TLC prints a tuple that does not
    fit its line width over several lines (<< "TAG",\n   1,\n   "..." >>): those are joined."""
    res = []
    lines = out.splitlines()
    i = 0
    while i < len(lines):
        line = lines[i]
        i += 1
        if not (line.startswith('<<"' + tag + '"') or line.startswith('<< "' + tag + '"')):
            continue
        buf = line.strip()
        while not buf.endswith(">>") and i < len(lines):
            buf += " " + lines[i].strip()
            i += 1
        body = buf[2:-2].strip()
        try:
            res.append(ast.literal_eval("(" + body + ",)"))
        except Exception:
            raise Infra("cannot parse a %s line printed by TLC: %r" % (tag, buf[:300]))
    return res


def cfg(constants, spec=None, init=None, next_=None, invariants=(), properties=(), constraint=None,
        postcondition=None, view=None, deadlock=False):
    lines = ["CONSTANTS"]
    for k, v in constants.items():
        lines.append("  %s = %s" % (k, tla_value(v)))
    if spec:
        lines.append("SPECIFICATION %s" % spec)
    if init:
        lines.append("INIT %s" % init)
    if next_:
        lines.append("NEXT %s" % next_)
    if invariants:
        lines.append("INVARIANTS " + " ".join(invariants))
    if properties:
        lines.append("PROPERTIES " + " ".join(properties))
    if constraint:
        lines.append("CONSTRAINT %s" % constraint)
    if view:
        lines.append("VIEW %s" % view)
    if postcondition:
        lines.append("POSTCONDITION %s" % postcondition)
    lines.append("CHECK_DEADLOCK %s" % ("TRUE" if deadlock else "FALSE"))
    return "\n".join(lines) + "\n"


def tla_value(v):
    if isinstance(v, bool):
        return "TRUE" if v else "FALSE"
    if isinstance(v, int):
        return str(v)
    if isinstance(v, str):
        return v  # model value or already formatted
    if isinstance(v, (set, frozenset)):
        return "{" + ",".join(sorted(tla_value(x) for x in v)) + "}"
    if isinstance(v, (list, tuple)):
        return "<<" + ",".join(tla_value(x) for x in v) + ">>"
    raise ValueError(v)


def q(s):
    return '"%s"' % s


# ----------------------------------------------------------------------------------------- findings

def load_findings():
    path = os.path.join(VERIF, "known_findings.json")
    if not os.path.exists(path):
        return []
    with open(path) as fh:
        return json.load(fh).get("findings", [])


def match_finding(prop, text, facts=None):
    """Returns the open known finding that lists exactly this failure, if any."""
    for f in load_findings():
        if f.get("status") != "open" or f.get("property") != prop:
            continue
        pat = f.get("match", {}).get("regex")
        if pat and not re.search(pat, text):
            continue
        ok = True
        for k, v in (f.get("match", {}).get("facts") or {}).items():
            if (facts or {}).get(k) != v:
                ok = False
        if ok:
            return f
    return None


# ----------------------------------------------------------------------------------------- verdicts

class Result:
    def __init__(self, prop, tier, level):
        self.prop = prop
        self.tier = tier
        self.level = level
        self.t0 = time.time()
        self.coverage = {"samples": []}
        self.assumptions = []
        self.violations = []      # (text, replay object)
        self.known = {}           # finding id -> (finding, count)
        self.notes = []

    def add_known(self, finding, what):
        fid = finding.get("id", "?")
        if fid not in self.known:
            self.known[fid] = [finding, 0, what]
        self.known[fid][1] += 1

    def violation(self, text, replay):
        # a step of the harness itself that did not work (a set-up handshake that timed out on a loaded
        # machine, a fixture that could not be built) is not an observation of the property: exit 2
        if "harness:" in text:
            raise Infra("harness problem, no verdict: " + text[:400])
        self.violations.append((text, replay))

    def sample(self, s, limit=6):
        if len(self.coverage["samples"]) < limit:
            self.coverage["samples"].append(s)

    def finish(self):
        os.makedirs(EVIDENCE, exist_ok=True)
        wall = round(time.time() - self.t0, 2)
        cov = self.coverage
        if not cov.get("samples"):
            cov["samples"] = ["(no sample recorded)"]
        ev = {
            "property_id": self.prop,
            "tier": self.tier,
            "seed": seed(),
            "level": self.level,
            "coverage": cov,
            "assumptions": self.assumptions,
            "wall_s": wall,
            "violations": len(self.violations),
            "known_findings_hit": {k: v[1] for k, v in self.known.items()},
            "notes": self.notes,
        }
        with open(os.path.join(EVIDENCE, self.prop + ".json"), "w") as fh:
            json.dump(ev, fh, indent=1, sort_keys=True, default=str)
        for fid, (f, n, what) in sorted(self.known.items()):
            print("KNOWN-FINDING: property=%s %s [%s, seen %d times this run] %s" % (
                self.prop, f.get("summary", ""), fid, n, what))
        if self.violations:
            os.makedirs(REPLAYS, exist_ok=True)
            # one replay file per distinct signature, at most 5
            seen = set()
            for text, replay in self.violations:
                sig = re.sub(r"\d+", "#", text)[:200]
                if sig in seen or len(seen) >= 5:
                    continue
                seen.add(sig)
                h = hashlib.sha1((text + json.dumps(replay, sort_keys=True, default=str)).encode()).hexdigest()[:10]
                path = os.path.join(REPLAYS, "%s_%s.json" % (self.prop, h))
                with open(path, "w") as fh:
                    json.dump({"property": self.prop, "what": text, "replay": replay}, fh, indent=1, default=str)
                print("VIOLATION property=%s replay=%s" % (self.prop, path))
                print("  " + text)
            print("%s: %d violating observations (%d distinct signatures) in %.1fs" % (
                self.prop, len(self.violations), len(seen), wall))
            return 1
        print("%s %s: held on everything explored (%.1fs) %s" % (
            self.prop, self.tier, wall, json.dumps({k: v for k, v in cov.items() if k not in ("samples", "rule", "trusted_base")}, default=str)[:600]))
        return 0


def main_wrapper(fn):
    try:
        rc = fn()
    except Infra as e:
        sys.stderr.write("INFRASTRUCTURE: %s\n" % e)
        print("check could not run (infrastructure), no verdict")
        sys.exit(2)
    except Exception:
        import traceback
        traceback.print_exc()
        print("check failed internally (infrastructure), no verdict")
        sys.exit(2)
    sys.exit(rc)
