"""C15 (exploration): hostile byte streams against a real BitcoinNode in isolated worker processes. The envelope
is PeerSession.tla: in every phase a malformed message has exactly two allowed outcomes, in sync or closed; there is
no Crash action, so a worker that dies is a rejected session."""
import json
import re
import subprocess

from common import (GOENV, Infra, NCPU, Result, Scratch, build_harness, cfg, match_finding, run_tlc, seed, tlc_ok)
import engine_session


def limit_as():
    import resource
    resource.setrlimit(resource.RLIMIT_AS, (3 << 30, 3 << 30))


def crash_signature(err):
    first = next((l for l in err.splitlines() if l.startswith("panic:") or l.startswith("fatal error:")), err[:200])
    frames = [l.strip() for l in err.splitlines() if "tokenized/" in l and "(" in l and not l.startswith("\t")]
    top = frames[0].split("(")[0] if frames else ""
    deep = next((f.split("(0x")[0] for f in frames if "bitcoin_reader" in f), "")
    return "%s in %s (called from %s)" % (first, top, deep)


def run(tier):
    res = Result("C15", tier, "exploration")
    sd = seed()
    quick = tier == "quick"
    total = 2500 if quick else 60000
    with Scratch("C15") as scratch:
        binary = build_harness(scratch)
        # the envelope: PeerSession has no crash action and every state is in sync, closed or (known) not reading
        out, st = run_tlc(scratch, "PeerSession", cfg({"VerifyOnly": False, "HasTxMgr": True, "QCap": 3, "MaxMsgs": 6},
                                                      spec="Spec", invariants=engine_session.EXH_INV,
                                                      properties=engine_session.EXH_PROPS), workers=NCPU, timeout=1800,
                          name="envelope")
        tlc_ok(out, st, "PeerSession envelope")
        sessions = 0
        inputs = {}
        crashes = 0
        phases = {}
        workers = 12
        per = total // workers
        import concurrent.futures as cf
        with cf.ThreadPoolExecutor(max_workers=workers) as ex:
            procs = list(ex.map(lambda wk: run_worker(binary, sd * 100 + wk, per, res), range(workers)))
        for (n, ins, ph, cr) in procs:
            sessions += n
            crashes += cr
            for k, v in ins.items():
                inputs[k] = inputs.get(k, 0) + v
            for k, v in ph.items():
                phases[k] = phases.get(k, 0) + v
    res.coverage.update({
        "evaluations": sessions, "distinct_nontrivial": len(inputs) * len(phases),
        "rule": "sessions = a seed-chosen phase (before the handshake, during verification, ready; with / without tx manager, "
                "verify-only, block request outstanding) reached with conformant messages, then 1-3 hostile inputs produced by "
                "23 mutation operators (a third of the sessions with an alternate header handler installed; noise, checksum, declared length, truncation, oversized classic and extended lengths, "
                "hostile counts in headers/inv/addr/tx/block/protoconf/reject, headers with arbitrary bits and timestamps, "
                "wrong magic, non-UTF8 command, bit flips, a headers message that stops after the first of two announced headers), then the connection is closed; distinct_nontrivial counts "
                "operator kinds x phases exercised, a conservative lower bound",
        "samples": [{"inputs_by_operator": inputs}, {"sessions_by_phase": phases}],
        "worker_crashes": crashes, "envelope_states": st["distinct"],
    })
    res.assumptions += ["byte-level universality is sampled, not exhausted: TLA+ cannot quantify over byte strings; the spec "
                        "contributes the phase x class structure and the oracle (in sync or closed, never a dead process)",
                        "a worker that dies is attributed to the session it printed last"]
    return res.finish()


def run_worker(binary, sd, count, res):
    start = 0
    sessions = 0
    inputs = {}
    phases = {}
    crashes = 0
    skipped = [0]
    while start < count:
        n = min(500, count - start)
        # address space limited to 3 GiB: an allocation sized by a hostile count aborts the worker here as it
        # would abort the process on a smaller machine, instead of succeeding (and thrashing this sandbox)
        p = subprocess.run([binary, "hostile", "-seed", str(sd), "-from", str(start), "-count", str(n)], env=GOENV,
                           stdout=subprocess.PIPE, stderr=subprocess.PIPE, timeout=3000, preexec_fn=limit_as)
        out = p.stdout.decode("utf-8", "replace")
        last = start - 1
        last_inputs = []
        for l in out.splitlines():
            if l.startswith("SESSION "):
                last = int(l.split()[1])
                sessions += 1
                phases[l.split()[2]] = phases.get(l.split()[2], 0) + 1
                last_inputs = []
            elif l.startswith("INPUT "):
                m = re.match(r"INPUT \d+ (.*) \(\d+ bytes\)", l)
                kind = re.sub(r"[0-9a-f]{8}$", "", m.group(1)).strip() if m else l
                kind = re.sub(r"bits [0-9a-f]{8}", "bits", kind)
                inputs[kind] = inputs.get(kind, 0) + 1
                last_inputs.append(l)
            elif l.startswith("BAD "):
                f = match_finding("C15", l)
                if f:
                    res.add_known(f, l)
                else:
                    err_txt = p.stderr.decode("utf-8", "replace")
                    i0 = err_txt.find("STACKS for session")
                    res.violation(l, {"engine": "hostile", "seed": sd, "line": l, "inputs": last_inputs[-3:],
                                      "session": int(l.split()[1]), "stacks": err_txt[i0:i0 + 20000] if i0 >= 0 else ""})
            elif l.startswith("HARNESS "):
                if "handshake failed" in l or "verification failed" in l:
                    raise Infra("hostile worker: " + l)
                skipped[0] += 1
        if p.returncode == 0 and "DONE" in out:
            start += n
            continue
        crashes += 1
        err = p.stderr.decode("utf-8", "replace")
        sig = crash_signature(err)
        what = "process crash while handling peer bytes: %s; last inputs: %s" % (sig, "; ".join(last_inputs[-3:]))
        f = match_finding("C15", what)
        if f:
            res.add_known(f, sig)
        else:
            res.violation(what + " (session %d of seed %d)" % (last, sd),
                          {"engine": "hostile", "seed": sd, "session": last, "stderr": err[:3000],
                           "rerun": "verifharness hostile -seed %d -from %d -count 1" % (sd, last)})
        if crashes > 300:
            break
        start = last + 1
    return sessions, inputs, phases, crashes


def replay(path):
    with open(path) as fh:
        rp = json.load(fh)["replay"]
    with Scratch("C15r") as scratch:
        binary = build_harness(scratch)
        p = subprocess.run([binary, "hostile", "-seed", str(rp["seed"]), "-from", str(rp["session"]), "-count", "1"],
                           env=GOENV, stdout=subprocess.PIPE, stderr=subprocess.PIPE, timeout=600, preexec_fn=limit_as)
        if p.returncode != 0:
            print(p.stderr.decode()[:800])
            print("VIOLATION property=C15 replay=%s" % path)
            return 1
        print("not reproduced")
        return 0
