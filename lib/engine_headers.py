"""Header-repository engine: HeaderChain.tla (exhaustive cfgs) + HeaderChainGen.tla (behaviour
generation) + the Go replay harness (`verifharness hdr`) + HeaderLocatorTrace.tla (C19).

Serves C01 C07 C08 C09 C10 C11 C12 C17 C19.
"""
import concurrent.futures as cf
import json
import os
import time

from common import (Infra, NCPU, Result, Scratch, build_harness, cfg, match_finding, printed, q, run_harness,
                    run_tlc, seed, tlc_ok)

ALL_OPS = {"submit", "clean", "save", "load", "reload", "subscribe", "mark"}

# exhaustive families: (spec, invariants, properties)
FAMILIES = {
    "core": ("SpecCore", ["TypeOK", "TipMaxWork", "MarkedExcluded", "StreamReconstructs", "OnlyBestAnnounced",
                          "RefLocatorOK"],
             ["RefusalChangesNothing", "CleanChangesNothing", "NoWorkLoss"]),
    "maint": ("SpecMaint", ["TypeOK", "TipMaxWork", "MarkedExcluded"],
              ["RefusalChangesNothing", "CleanChangesNothing", "SaveLoadSame", "NoWorkLoss"]),
    "mark": ("SpecMark", ["TypeOK", "TipMaxWork", "MarkedExcluded"],
             ["RefusalChangesNothing", "FallsBack", "SaveLoadSame"]),
}


def exh_cfg(family, N, D, P, subs=1, works=(1, 2), auto=0):
    spec, inv, props = FAMILIES[family]
    return cfg({"N": N, "Works": set(works), "MaxDepth": D, "P": P, "MaxSubs": subs, "AutoEvery": auto}, spec=spec,
               invariants=inv, properties=props)


def gen_cfg(N, D, P, subs, depth, ops, works=(1, 2), lean=True, ties=False, auto=0):
    return cfg({"N": N, "Works": set(works), "MaxDepth": D, "P": P, "MaxSubs": subs, "AutoEvery": auto, "Depth": depth,
                "Ops": {q(o) for o in ops}, "Lean": lean, "Ties": ties, "Script": "ScriptNone", "Shape": "ShapeNone"}, spec="GSpec",
               invariants=["Emit"]).replace("Script = ScriptNone", "Script <- TheScript").replace("Shape = ShapeNone", "Shape <- TheShape")


def script_module(script, shape=()):
    return ("---- MODULE HCRun ----\nEXTENDS HeaderChainGen\nTheScript == <<%s>>\nTheShape == <<%s>>\n====\n" % (
        ",".join(q(k) for k in script), ",".join(str(x) for x in shape)))


# Per-property plans. exh: list of (family, N, D, P, subs); gens: list of dicts; runs: harness runs per gen
def plan(prop, tier):
    quick = tier == "quick"
    num = int(os.environ.get("VERIF_NUM", "0")) or (800 if quick else 8000)

    def g(N=6, D=1, P=2, subs=0, depth=12, ops=("submit", "clean", "save", "load"), n=num, S=(1, 3), big=None,
          flags=(), works=(1, 2), lean=True, ties=False):
        return dict(N=N, D=D, P=P, subs=subs, depth=depth, ops=ops, num=n, S=S, big=big, flags=list(flags),
                    works=works, lean=lean, ties=ties)

    def sc(script, N=4, D=4, P=4, subs=0, works=(1, 2), S=(1, 3), flags=(), lean=True, ties=False, auto=0, scnum=0, big=None,
           shape=()):
        """bounded-exhaustive scenario family: all trees over N blocks, all orders, the scripted step kinds"""
        return dict(N=N, D=D, P=P, subs=subs, depth=len(script), ops=(), num=0, S=S, big=big, flags=list(flags),
                    works=works, lean=lean, script=list(script), ties=ties, auto=auto, scnum=scnum,
                    shape=tuple(shape))

    G = "grow"
    maint_ops = ("submit", "clean", "save", "load")
    if prop == "C01":
        exh = [("core", 4 if quick else 5, 1, 2, 1), ("maint", 4, 1, 2, 1)]
        gens = [g(D=1, P=2, ops=maint_ops, big=400), g(D=2, P=3, ops=maint_ops, works=(1, 3)),
                g(N=5, D=2, P=2, depth=9, ops=("submit", "clean"), works=(1, 2, 3)),
                g(D=0, P=2, ops=maint_ops, n=num // 2),
                g(N=7, D=1, P=1, depth=14, ops=("submit", "clean"))]
        gens += [sc([G, G, G, G, "clean", "save", "load"]), sc([G, G, "clean", G, G], works=(1, 3)), sc([G, G, G, "save", "load", G, "clean"], D=1, P=1)]
        gens += [sc([G, G, G, G, "clean", "save", "load"], works=(1,), ties=True), sc([G, G, G, "clean", G, "save", "load", G], D=2, P=2, works=(1,), ties=True),
                 g(D=2, P=3, ops=maint_ops, n=num // 2, works=(1,), ties=True),
                 # the implementation's own scale: 5000 headers per block, exported Clean / Load (prune depth 10000),
                 # the automatic clean at height 10000
                 sc([G, G, G, "clean", "save", "load"], N=3, D=3, P=2, S=(5000,), flags=["-realclean"], auto=2),
                 # a heavier fork of the same height after a Save, saved again and loaded
                 sc([G, G, "save", G, "save", "load"]),
                 # the same maintenance operation twice in a row, with nothing new in between
                 sc([G, G, G, "save", "save", "load", "load", G]), sc([G, G, G, "clean", "clean", "save", "clean", G], D=1, P=1),
                 # Load on the repository object in use (back to the stored state), then the same headers again
                 g(D=1, P=2, ops=maint_ops, n=num // 2, flags=["-liveload"]),
                 sc([G, G, "save", G, "load", G, G], flags=["-liveload"]),
                 # a fork of a fork that is partly below the prune depth at Clean and overtakes afterwards
                 sc([G] * 11 + ["clean", G], N=12, D=12, P=1, works=(1, 3), shape=(0, 1, 2, 3, 4, 5, 1, 7, 8, 8, 10, 11),
                    scnum=600 if quick else 6000)]
    elif prop == "C07":
        exh = [("core", 4, 1, 2, 2)] + ([] if quick else [("core", 5, 1, 2, 1)])
        gens = [g(D=1, P=2, subs=2, ops=("submit", "subscribe", "clean"), big=400),
                g(D=2, P=3, subs=2, ops=("submit", "subscribe", "clean", "save"), works=(1, 3)),
                g(N=5, D=2, P=2, subs=1, depth=8, ops=("submit", "subscribe"), works=(1, 2, 3)),
                g(N=5, D=1, P=2, subs=1, depth=8, ops=("submit", "subscribe")),
                g(N=7, D=2, P=3, subs=1, depth=14, ops=("submit", "subscribe"))]
        gens += [sc(["subscribe", G, G, G, G], subs=1), sc([G, "subscribe", G, G, G, "subscribe"], subs=2, works=(1, 3)), sc([G, G, "subscribe", "clean", G, G], subs=1, D=1, P=2),
                 sc(["subscribe", G, G, G, G], subs=1, works=(1,), ties=True),
                 sc(["subscribe", G, G, G], subs=1, N=3, D=3, P=2, S=(5000,), flags=["-realclean"], auto=2),
                 # chain, fork, fork of the fork, in every order and with every work assignment, one subscriber from the start
                 sc(["subscribe", G, G, G, G, G], subs=1, N=5, D=5, P=5, shape=(0, 1, 1, 3, 3), works=(1, 3),
                    scnum=600 if quick else 6000),
                 # a Clean consolidates / prunes between the growth of a fork of a fork and the header that makes it best
                 sc(["subscribe", G, G, G, "clean", G, G], subs=1, N=5, D=2, P=1, shape=(0, 1, 1, 3, 3), works=(1, 3),
                    scnum=600 if quick else 6000),
                 # main chain, a side branch X low down, a cousin C higher up that becomes best, then a branch of X that
                 # overtakes it: the fork point between old and new best lies below where C left the main chain (C07-11)
                 sc(["subscribe", G, G, G, G, G, G, G, G], subs=1, N=8, D=8, P=8, shape=(0, 1, 1, 2, 2, 3, 6, 6), works=(1, 3),
                    scnum=600 if quick else 6000),
                 # a subscriber that registers after a Save (same repository object), then reorganisations
                 sc([G, G, "save", "subscribe", G, G, "clean", G], subs=1, N=5, D=1, P=2)]
    elif prop == "C08":
        exh = [("core", 4, d, 2, 1) for d in (0, 1, 2)] + ([] if quick else [("core", 5, 1, 2, 1)])
        gens = [g(D=d, P=max(2, d), ops=("submit", "clean", "save"), flags=["-twin"], big=(400 if d == 1 else None),
                  lean=False)
                for d in (0, 1, 2)] + [g(D=6, P=6, ops=("submit", "clean"), flags=["-twin"]),
                                       g(N=5, D=1, P=2, depth=9, ops=("submit",), flags=["-twin"], lean=False)]
        gens += [sc([G, G, G, "submit", "submit"], D=0, P=2, flags=["-twin"], lean=False), sc([G, G, G, "submit", "submit"], D=1, P=2, flags=["-twin"], lean=False), sc([G, G, "clean", "submit", "submit"], D=1, P=1, flags=["-twin"], lean=False),
                 sc([G, G, G, "submit", "submit"], D=1, P=2, flags=["-twin"], lean=False, works=(1,), ties=True),
                 # a mark trims a branch back to a fork point; headers that are already accepted are submitted again
                 sc([G, G, G, "mark", "subscribe", "submit", "submit"], N=3, subs=1, lean=False),
                 # a store that holds a list of invalid-marked hashes and little else (a mark persists at once, a Save
                 # may never have happened): the marked header is still answered "marked invalid" after the restart
                 sc(["legacy", "submit", "submit", "submit"], N=3, D=1, P=2, lean=False),
                 sc(["legacy", G, "save", "load", "submit"], N=3, D=2, P=2, lean=False)]
    elif prop == "C09":
        exh = [("maint", 4, 1, 2, 1)]
        gens = [g(D=1, P=1, ops=maint_ops, big=400), g(D=1, P=2, ops=maint_ops, S=(1, 3, 7)),
                g(D=2, P=2, ops=maint_ops), g(N=7, D=2, P=3, depth=14, ops=("submit", "clean"))]
        gens += [sc([G, G, G, G, "clean", "save", "load"], D=1, P=1), sc([G, G, G, G, "clean"], D=2, P=2, works=(1, 3)), sc([G, G, "clean", G, G, "clean"], D=4, P=1),
                 sc([G, G, G, G, "clean", "save", "load"], D=1, P=1, works=(1,), ties=True),
                 sc(["legacy", G, G, "clean", G], D=2, P=1),
                 # the part of the chain that a Load keeps in memory starts exactly on a 1000-header file boundary
                 sc([G, G, G, G, "save", "load"], D=2, P=2, S=(500,), shape=(0, 1, 2, 3)),
                 sc([G, G, G, "save", "load", G, "clean"], D=1, P=1, S=(1000,), shape=(0, 1, 2, 3)),
                 # a fork becomes the best chain because the competing header is marked invalid, is consolidated
                 # and then pruned from memory
                 sc([G, G, "mark", "clean", G, G, "clean"], D=4, P=1),
                 sc([G, G, G, "clean", "save", "load"], N=3, D=3, P=2, S=(5000,), flags=["-realclean"], auto=2)]
    elif prop == "C10":
        exh = [("maint", 4, 1, 2, 1), ("maint", 4, 2, 2, 1)]
        gens = [g(D=1, P=2, ops=("submit", "clean"), big=400), g(D=2, P=2, ops=("submit", "clean"), S=(1, 3, 7)),
                g(D=1, P=1, ops=("submit", "clean", "subscribe"), subs=1),
                g(N=7, D=2, P=3, depth=14, ops=("submit", "clean"))]
        gens += [sc([G, G, G, G, "clean"]), sc([G, G, G, "clean", G, "clean"], D=1, P=1), sc([G, G, "clean", G, G, "clean"], works=(1, 3), P=2),
                 sc([G, G, G, "clean", G, "clean"], D=2, P=2, works=(1,), ties=True),
                 sc(["legacy", G, G, "clean", G, "clean"], D=2, P=1),
                 sc([G, G, G, "clean", "clean", G, "clean", "clean"], D=1, P=1),
                 # a Clean that prunes what was in memory when the repository was loaded
                 sc([G, G, "save", "load", G, G, "clean"], D=1, P=1), sc([G, G, G, "save", "load", G, "clean", G, "clean"], D=2, P=1, S=(1, 7)),
                 g(D=1, P=1, ops=maint_ops, n=num // 2),
                 sc([G, G, "clean", G, "clean"], N=3, D=3, P=2, S=(5000,), flags=["-realclean"], auto=2)]
    elif prop == "C11":
        exh = [("maint", 4, 1, 2, 1), ("mark", 3, 3, 2, 1)]
        gens = [g(D=1, P=2, ops=maint_ops, big=500), g(D=2, P=3, ops=maint_ops, S=(1, 3, 7)),
                g(D=1, P=1, ops=("submit", "save", "load")),
                g(D=6, P=6, ops=("submit", "save", "load", "mark"))]
        gens += [sc([G, G, G, G, "save", "load"]), sc([G, G, G, "save", "load", G, "save", "load"], D=1, P=1), sc([G, G, "clean", G, G, "save", "load"], works=(1, 3), P=2), sc([G, G, G, "mark", "save", "load", "submit"], lean=False),
                 sc([G, G, G, "clean", G, "save", "load", G], D=2, P=2, works=(1,), ties=True),
                 # the part of the chain that a Load keeps in memory starts exactly on a 1000-header file boundary
                 sc([G, G, G, G, "save", "load"], D=2, P=2, S=(500,), shape=(0, 1, 2, 3)),
                 sc([G, G, "save", "load", G, G, "save", "load"], D=2, P=2, S=(500,), shape=(0, 1, 2, 3)),
                 # Save twice and Load twice with nothing in between; Load after more headers (they are gone, and arrive again)
                 sc([G, G, G, "save", "save", "load", "load", G]), sc([G, G, "save", G, G, "load", G, G, "save", "load"], D=2, P=2),
                 # a store written before branches existed (version-0 files), or an empty store, is loaded first
                 dict(sc(["legacy", G, G, "clean", "save", "load", G], D=2, P=2), big=400),
                 sc(["legacy", G, "save", "load", G, "clean", G], D=4, P=1, S=(1, 7)),
                 sc([G, G, "save", G, "save", "load"], N=3, D=3, P=2, S=(5000,), flags=["-realclean"], auto=2),
                 # Save, a reorganisation that forks below a 1000-header file boundary, Save by the same repository, Load
                 sc([G, G, G, "save", G, G, G, "save", "load"], N=6, D=6, P=1, S=(1,), big=500, scnum=800 if quick else 8000)]
    elif prop == "C12":
        exh = [("maint", 4, 1, 2, 1)]
        gens = [g(D=1, P=2, ops=("submit", "clean", "save", "reload"), flags=["-crash"], big=400),
                g(D=2, P=3, ops=("submit", "clean", "save", "reload"), flags=["-crash"]),
                g(D=1, P=1, ops=("submit", "clean", "save", "load", "reload"), flags=["-crash"])]
        gens += [sc([G, G, G, "save", G, "clean"], flags=["-crash"]), sc([G, G, "clean", G, G, "save"], flags=["-crash"], D=1, P=1), sc([G, G, G, G, "clean", "reload"], flags=["-crash"]),
                 sc([G, G, G, "save", G, "clean"], flags=["-crash"], works=(1,), ties=True)]
    elif prop == "C17":
        exh = [("mark", 3, 3, 2, 1)] + ([] if quick else [("mark", 4, 4, 2, 1)])
        gens = [g(D=6, P=6, ops=("submit", "mark", "save", "load")),
                g(D=6, P=6, ops=("submit", "mark", "clean"), S=(1, 3)),
                g(N=5, D=5, P=5, depth=10, ops=("submit", "mark", "clean")),
                g(N=4, D=4, P=4, depth=8, ops=("submit", "mark", "clean", "save"), works=(1, 2, 3)),
                g(N=5, D=5, P=5, depth=10, ops=("submit", "mark"))]
        gens += [sc([G, G, G, G, "clean", "mark", "save", "load"]), sc([G, G, G, G, "mark", "submit", "unmark", "submit"], lean=False), sc([G, G, G, "save", "mark", G, "save", "load"], works=(1, 3)),
                 sc([G, G, G, G, "mark", "submit"], lean=False, works=(1,), ties=True),
                 sc([G, G, "mark", "clean", G, G, "clean"], D=4, P=1),
                 # chain, fork, fork of the fork; a mark underneath all of them
                 sc([G, G, G, G, G, "mark"], N=5, D=5, P=5, shape=(0, 1, 1, 3, 3)),
                 # two marks in a row, from the top down, with a fork hanging off the lower one
                 sc([G, G, G, "mark", "mark", "submit"], N=3, lean=False)]
    elif prop == "C19":
        exh = [("core", 4, 1, 2, 1)]
        gens = [g(D=1, P=2, ops=maint_ops, flags=["-probe"], S=(1, 3, 7)),
                g(D=2, P=3, ops=("submit", "clean"), flags=["-probe"], S=(1, 3)),
                g(D=1, P=1, ops=maint_ops, flags=["-probe"], S=(1, 7))]
        gens += [sc([G, G, G, G, "clean"], flags=["-probeend"], S=(1, 7)), sc([G, G, G, G], flags=["-probeend"], S=(1, 3), works=(1, 3)), sc([G, G, "clean", G, G], flags=["-probeend"], D=1, P=1, S=(1, 7)),
                 sc([G, G, G, G], flags=["-probeend"], S=(1, 3), works=(1,), ties=True),
                 # nothing consolidated yet (no Clean): the best chain may run through a fork of a fork, and with runs of 7 /
                 # 20 headers the exponential walk steps over the first header of the intermediate branch
                 sc([G, G, G, G], flags=["-probeend"], S=(7, 20)),
                 # chain, fork above genesis, fork of that fork
                 sc([G, G, G, G, G], N=5, D=5, P=5, shape=(0, 1, 1, 3, 3), flags=["-probeend"], S=(7, 20, 33))]
        # (a prune depth of 0 - only the tip in memory - is outside the implementation's configuration space: the
        #  depth is the constant 10000; with the hook's depth 0 the locator is empty)
    elif prop == "C18":
        exh = [("maint", 4, 1, 2, 1)]
        pf = ["-proofs"]
        gens = [g(D=1, P=1, ops=maint_ops, flags=pf, S=(1, 3)), g(D=2, P=2, ops=maint_ops, flags=pf, works=(1, 3), big=500),
                g(D=6, P=6, ops=("submit", "mark", "clean", "save", "load"), flags=pf),
                sc([G, G, G, G, "clean", "save", "load"], D=1, P=1, flags=pf),
                # the part of the chain that a Load keeps in memory starts exactly on a 1000-header file boundary
                sc([G, G, G, G, "save", "load"], D=2, P=2, S=(500,), flags=pf, shape=(0, 1, 2, 3)),
                sc([G, G, G, G, "save", "load", "clean"], D=2, P=2, S=(500,), flags=pf, shape=(0, 1, 2, 2)),
                sc([G, G, "save", "load", G, G, "save", "load"], D=2, P=2, S=(500,), flags=pf, shape=(0, 1, 2, 3)),
                sc([G, G, "clean", G, G], D=2, P=1, flags=pf, works=(1, 3)),
                sc([G, G, G, G, "mark", "clean"], flags=pf),
                sc([G, G, G, G, "clean"], flags=pf, works=(1,), ties=True)]
    else:
        raise Infra("no header plan for " + prop)
    if not quick:
        extra = []
        for x in gens:
            if x["big"] is None:
                x["big"] = 400
        if prop in ("C09", "C10", "C11", "C01"):
            # the implementation's own constants: prune depth 10000 = P blocks of 10000/P headers, the exported Clean / Load,
            # and the automatic clean at every multiple of 10000 (every P block heights)
            for x in gens:
                if not x.get("script") and 10000 % x["P"] == 0 and x["P"] <= 2 and "-crash" not in x["flags"]:
                    extra.append(dict(x, num=60, S=(10000 // x["P"],), big=None, flags=x["flags"] + ["-realclean"], auto=x["P"]))
                    break
        gens += extra
    return exh, gens


def generate(scratch, gc, s, idx):
    """One TLC run (random simulation, or BFS over a scripted scenario family) -> behaviour JSON strings."""
    if gc.get("script"):
        sc = gc["script"]
        kinds = {"grow": "submit", "any": None}  # "legacy" is its own operation kind
        ops = set(gc["ops"]) | {kinds.get(k, k) for k in sc if kinds.get(k, k)}
        ops.discard("unmark")
        if "unmark" in sc:
            ops.add("mark")
        c = gen_cfg(gc["N"], gc["D"], gc["P"], gc["subs"], len(sc), sorted(ops), gc.get("works", (1, 2)), gc.get("lean", True),
                    gc.get("ties", False), gc.get("auto", 0))
        if gc.get("scnum"):
            # a scenario family too large to enumerate: random behaviours of the scripted shape
            out, st = run_tlc(scratch, "HCRun", c, files={"HCRun.tla": script_module(sc, gc.get("shape", ()))}, workers=1, simulate=gc["scnum"],
                              depth=len(sc) + 2, tlc_seed=s, timeout=1800, name="scr%d" % idx)
            if st.get("error") or st.get("violation"):
                raise Infra("scripted simulation failed: %s\n%s" % (st, out[-2000:]))
        else:
            out, st = run_tlc(scratch, "HCRun", c, files={"HCRun.tla": script_module(sc, gc.get("shape", ()))}, workers=1,
                              timeout=1800, name="scr%d" % idx)
            if st.get("error") or st.get("violation") or "Model checking completed" not in out:
                raise Infra("scripted generation failed: %s\n%s" % (st, out[-2000:]))
        behs = printed(out, "BEH")
        if not behs:
            raise Infra("scripted generation produced nothing:\n" + out[-2000:])
        return behs
    out, st = run_tlc(scratch, "HCRun",
                      gen_cfg(gc["N"], gc["D"], gc["P"], gc["subs"], gc["depth"], gc["ops"], gc.get("works", (1, 2)),
                              gc.get("lean", True), gc.get("ties", False), gc.get("auto", 0)),
                      files={"HCRun.tla": script_module([])},
                      workers=1, simulate=gc["num"], depth=gc["depth"] + 2, tlc_seed=s, timeout=1200,
                      name="gen%d" % idx)
    if st.get("error") or st.get("violation"):
        raise Infra("behaviour generation failed: %s\n%s" % (st, out[-2000:]))
    behs = printed(out, "BEH")
    if not behs:
        raise Infra("behaviour generation produced nothing:\n" + out[-2000:])
    return behs


def bfs_generate(scratch, N, D, P, subs, depth, ops, idx):
    out, st = run_tlc(scratch, "HCRun", gen_cfg(N, D, P, subs, depth, ops, lean=False),
                      files={"HCRun.tla": script_module([])}, workers=1, timeout=3000,
                      name="bfs%d" % idx)
    if st.get("error") or st.get("violation"):
        raise Infra("bounded-exhaustive generation failed: %s\n%s" % (st, out[-2000:]))
    return printed(out, "BEH"), st


def run(prop, tier):
    level = "fault_enumeration" if prop == "C12" else "model_checking"
    res = Result(prop, tier, level)
    sd = seed()
    exh, gens = plan(prop, tier)
    states = transitions = 0
    exh_desc = []
    total_beh = 0
    comparisons = {}
    harness_stats = []
    truncated_by_other = 0
    other_sigs = {}
    nontrivial = 0
    with Scratch(prop) as scratch:
        binary = build_harness(scratch)

        # 1. the property as an invariant / action property of the spec, exhaustively
        for (fam, N, D, P, subs) in exh:
            out, st = run_tlc(scratch, "HeaderChain", exh_cfg(fam, N, D, P, subs), workers=NCPU, timeout=2400,
                              name="exh_%s_%d_%d" % (fam, N, D))
            tlc_ok(out, st, "HeaderChain %s N=%d" % (fam, N))
            states += st["distinct"]
            transitions += st["generated"]
            exh_desc.append("%s N=%d MaxDepth=%d P=%d subs=%d: %d distinct / %d generated" % (
                fam, N, D, P, subs, st["distinct"], st["generated"]))

        # 1b. C12 at the design level: the two stores of the best chain and the order of the writes (HeaderStore.tla)
        if prop == "C12":
            hs = cfg({"MaxLen": 4 if tier == "quick" else 5, "MaxId": 9 if tier == "quick" else 12, "P": 1}, spec="Spec",
                     invariants=["TypeOK", "CrashSoundShallow"])
            out, st = run_tlc(scratch, "HeaderStore", hs, workers=NCPU, timeout=2400, name="hstore")
            tlc_ok(out, st, "HeaderStore CrashSoundShallow")
            states += st["distinct"]
            transitions += st["generated"]
            exh_desc.append("HeaderStore (write order, crash between any two writes): CrashSoundShallow holds, %d distinct" % st["distinct"])
            out, st = run_tlc(scratch, "HeaderStore", hs.replace("CrashSoundShallow", "CrashSound"), workers=1, timeout=2400,
                              name="hstore_full")
            if st.get("error") and not st.get("violation"):
                raise Infra("HeaderStore CrashSound run failed: %s" % st)
            exh_desc.append("HeaderStore CrashSound without the deep-reorganisation exemption: %s" % (
                "violated as expected (the trace of known finding F-C12-1)" if st.get("violation") else
                "NOT violated (the design-level window of F-C12-1 has disappeared from the model)"))

        # 2. behaviours from the spec, replayed on the real repository
        jobs = []
        with cf.ThreadPoolExecutor(max_workers=max(2, NCPU // 2)) as ex:
            futs = {}
            for i, gc in enumerate(gens):
                futs[ex.submit(generate, scratch, gc, sd * 1000 + i, i)] = (i, gc)
            if tier == "thorough":
                # bounded-exhaustive behaviours: every behaviour of the generator up to the depth, all tree shapes
                gc0 = gens[0]
                bfs = dict(gc0)
                bfs.update(N=4, depth=5, big=None, S=(1, 3))
                futs[ex.submit(lambda: bfs_generate(scratch, 4, gc0["D"], gc0["P"], min(gc0["subs"], 1), 5,
                                                    gc0["ops"], 99)[0])] = (99, bfs)
            for f in cf.as_completed(futs):
                i, gc = futs[f]
                jobs.append((i, gc, f.result()))
        jobs.sort(key=lambda x: x[0])

        loc_records = []
        for i, gc, behs in jobs:
            path = os.path.join(scratch, "beh_%d.jsonl" % i)
            with open(path, "w") as fh:
                fh.write("\n".join(behs) + "\n")
            total_beh += len(behs)
            if behs:
                b0 = json.loads(behs[min(len(behs) - 1, sd % len(behs))])
                res.sample({"config": {k: gc[k] for k in ("N", "D", "P", "subs", "depth")}, "parent": b0["parent"],
                            "work": b0["work"],
                            "ops": [[o["op"], o["b"], o["exp"]["verdict"], o["exp"]["tip"]] for o in b0["ops"]]})
            stretches = list(gc["S"])
            runs = [(S, path, None) for S in stretches]
            if gc["big"]:
                sub = os.path.join(scratch, "beh_%d_big.jsonl" % i)
                k = 400 if tier == "quick" else 4000
                if "-crash" in gc["flags"] and tier != "quick":
                    k = 1000   # every clean / save of these is replayed once per crash point, at 400 headers per block
                with open(sub, "w") as fh:
                    fh.write("\n".join(behs[:k]) + "\n")
                runs.append((gc["big"], sub, None))
            for S, p, extra in runs:
                args = ["hdr", "-s", str(S), "-d", str(gc["D"]), "-p", str(gc["P"]), "-seed", str(sd),
                        "-workers", str(NCPU), "-in", p] + gc["flags"] + ([extra] if extra else [])
                env = {}
                locout = None
                if "-probe" in gc["flags"] or "-probeend" in gc["flags"]:
                    locout = os.path.join(scratch, "loc_%d_%d.ndjson" % (i, S))
                    env["VERIF_LOCOUT"] = locout
                rc, out, err = run_harness(binary, args, env=env, timeout=3000 if tier == "quick" else 7200)
                if rc != 0 or not out.strip():
                    raise Infra("harness failed rc=%s: %s" % (rc, err[-2000:]))
                r = json.loads(out)
                harness_stats.append({"S": S, "D": gc["D"], "P": gc["P"], "flags": gc["flags"] + ([extra] if extra else []),
                                      "behaviours": r["stats"]["behaviours"], "steps": r["stats"]["steps"],
                                      "diverging": r["diverging"], "max_height": r["stats"]["max_height"],
                                      "crash_images": r["stats"]["crash_images"], "reorgs": r["stats"]["reorgs"],
                                      "tie_states": r["stats"].get("tie_states", 0), "tie_followed": r["stats"].get("tie_followed", 0),
                                      "tie_stopped": r["stats"].get("tie_stopped", 0)})
                for k2, v in r["stats"]["comparisons"].items():
                    comparisons[k2] = comparisons.get(k2, 0) + v
                nontrivial += r["stats"]["behaviours"]
                # attribution: the first diverging step of a behaviour decides
                by_beh = {}
                for d in (r["divergences"] or []):
                    by_beh.setdefault(d["beh"], []).append(d)
                lines = None
                for beh_idx, ds in by_beh.items():
                    mine = [d for d in ds if d["prop"] == prop]
                    if not mine:
                        truncated_by_other += 1
                        for d in ds[:1]:
                            other_sigs[d["sig"]] = other_sigs.get(d["sig"], 0) + 1
                        continue
                    d = mine[0]
                    f = match_finding(prop, d["msg"], d.get("facts"))
                    if f:
                        res.add_known(f, d["msg"])
                        continue
                    if lines is None:
                        lines = open(p).read().splitlines()
                    res.violation("%s (behaviour %d step %d op %s b=%d, S=%d D=%d P=%d)" % (
                        d["msg"], beh_idx, d["step"], d["op"], d["b"], S, gc["D"], gc["P"]),
                        {"engine": "headers", "S": S, "D": gc["D"], "P": gc["P"], "flags": gc["flags"] + ([extra] if extra else []),
                         "seed": sd, "divergences_at_step": ds, "behaviour": json.loads(lines[beh_idx]),
                         "rerun": "./check %s --replay <this file>" % prop})
                # divergences beyond the reporting cap still count
                if r["diverging"] > len(by_beh):
                    for sig, n in r["signatures"].items():
                        if sig.startswith(prop + " ") and not any(sig == d["sig"] for ds in by_beh.values() for d in ds):
                            res.violation("%d more divergences: %s" % (n, sig), {"signature": sig})
                if locout and os.path.exists(locout):
                    loc_records.append(locout)

        # 2b. C01 / C07 over schedules: concurrent peers, recorded calls linearized by TLC
        conc = None
        if prop in ("C01", "C07"):
            conc = concurrent_leg(scratch, binary, res, prop, tier, sd)

        # 3. C19: the recorded locators and peer probes are judged by TLC
        loc_events = 0
        if prop == "C19":
            loc_events = validate_locators(scratch, loc_records, res)

        # 3b. C19 on the real mainnet chain across the configured split height
        if prop == "C19":
            tp = os.path.join(scratch, "locmain.ndjson")
            rc, o, err = run_harness(binary, ["locmain", "-repo", os.environ.get("VERIF_REPO", "/repo"), "-out", tp,
                                              "-from", "556700" if tier == "quick" else "556100", "-to", "556900" if tier == "quick" else "558500"],
                                     timeout=1800)
            if rc != 0:
                raise Infra("locmain failed: " + err[-2000:])
            trace = open(tp).read()
            out, st = run_tlc(scratch, "LocatorLinear", "SPECIFICATION Spec\nPOSTCONDITION Accepted\nCHECK_DEADLOCK FALSE\n",
                              files={"trace.ndjson": trace}, workers=1, timeout=1800, name="locmain")
            if st.get("error") or "Model checking completed" not in out:
                raise Infra("LocatorLinear did not complete: %s\n%s" % (st, out[-2000:]))
            from common import printed_tuples
            lines = trace.splitlines()
            loc_events += len(lines)
            res.sample({"mainnet_locator": json.loads(lines[len(lines) // 2])})
            for t in printed_tuples(out, "LOCBAD"):
                rec = json.loads(lines[t[1] - 1])
                reason = "mainnet chain at tip %s: %s" % (t[3], t[2])
                f = match_finding("C19", reason)
                if f:
                    res.add_known(f, reason)
                else:
                    res.violation("locator: %s (max %d)" % (reason, rec["max"]), {"engine": "locmain", "record": rec})

        # 4. C18: every tree shape, position and single-element corruption (MerkleProofs.tla) on real proofs
        if prop == "C18":
            maxn = 6 if tier == "quick" else 9
            out, st = run_tlc(scratch, "MerkleProofs", cfg({"MaxN": maxn}, spec="Spec",
                                                           invariants=["ValidVerifies", "CorruptFails", "EmitCase"]),
                              workers=1, timeout=1800, name="merkle")
            tlc_ok(out, st, "MerkleProofs")
            states += st["distinct"]
            transitions += st["generated"]
            exh_desc.append("MerkleProofs trees of 1..%d leaves: %d cases" % (maxn, st["distinct"] // 2))
            p = os.path.join(scratch, "merkle_cases.txt")
            with open(p, "w") as fh:
                fh.write(out)
            rc, o, err = run_harness(binary, ["prf", "-in", p], timeout=1800)
            if rc != 0 or not o.strip():
                raise Infra("prf harness failed: " + err[-2000:])
            r = json.loads(o)
            if r["cases"] == 0:
                raise Infra("no merkle proof cases")
            comparisons["C18 proof cases"] = r["verifications"]
            res.sample({"merkle_proof_cases": r["cases"], "verifications": r["verifications"], "by_place": r["by_place"]})
            for d in r["divergences"]:
                what = "%s (tree of %d, position %d, corruption %s/%d, header %s, %s form)" % (
                    d["msg"], d["case"]["n"], d["case"]["pos"], d["case"]["kind"], d["case"]["at"], d["place"], d["form"])
                f = match_finding("C18", what)
                if f:
                    res.add_known(f, what)
                else:
                    res.violation(what, {"engine": "prf", "case": d})

    res.coverage.update({
        "states": states, "transitions": transitions,
        "traces_validated_against_impl": total_beh if prop != "C19" else loc_events,
        "evaluations": sum(h["behaviours"] for h in harness_stats),
        "distinct_nontrivial": total_beh,
        "rule": "behaviours are generated by TLC from HeaderChainGen (random simulation seeded by VERIF_SEED%s); "
                "distinct = distinct JSON behaviours after de-duplication; each is replayed once per stretch factor S on the "
                "real headers.Repository and every step's projection is compared with the spec's expectation" % (
                    ", plus bounded-exhaustive BFS N=4 depth 5" if tier == "thorough" else ""),
        "exhaustive_cfgs": exh_desc,
        "harness_runs": harness_stats,
        "comparisons_by_property": comparisons,
        "truncated_by_other_property": truncated_by_other,
        "other_property_signatures": other_sigs,
        "exhaustive": False,
    })
    if conc:
        res.coverage["concurrent_runs"] = conc
        res.coverage["traces_validated_against_impl"] += conc["traces"]
        res.coverage["evaluations"] += conc["traces"]
    if prop == "C12":
        res.coverage["crash_images"] = sum(h["crash_images"] for h in harness_stats)
        res.coverage["evaluations"] = res.coverage["crash_images"] + sum(h["behaviours"] for h in harness_stats)
    res.assumptions += [
        "fabricated headers with difficulty and split protection disabled (C02/C03 cover those paths)",
        "per-header work computed by the dependency's ConvertToWork(ConvertToDifficulty(bits)) is trusted",
        "states with several equal-work tips: the specification leaves the choice of tip open (C01 asks for a tip of "
        "maximal work); generation families with Ties=TRUE emit one behaviour per choice and the replay follows the one "
        "the implementation takes - a behaviour stops without a verdict at the step where the implementation chose "
        "another allowed tip (tie_stopped); only an accepting submission or a mark may choose, Clean/Save/Load may not",
        "only submissions whose outcome the properties dictate are generated (Dict guard: parent safely held or unknown)",
    ]
    return res.finish()


def concurrent_leg(scratch, binary, res, prop, tier, sd):
    """Several peers submit their chains concurrently (plus maintenance calls, plus a subscriber that is
    either slightly slow or 10000 headers behind); TLC looks for a linearization of the recorded calls."""
    from common import printed_tuples
    quick = tier == "quick"
    N = 4
    gc = dict(N=N, D=N, P=N, subs=0, ops=(), works=(1, 2), lean=True, ties=True, script=["grow"] * N)
    behs = generate(scratch, gc, sd * 1000 + 77, 77)
    pools = os.path.join(scratch, "conc_pools.jsonl")
    with open(pools, "w") as fh:
        fh.write("\n".join(behs) + "\n")
    lines = []
    modes = [("plain", ["-per", "2" if quick else "6", "-pools", "150" if quick else "600", "-workers", "4"]),
             ("stall", ["-stall", "-per", "2" if quick else "8", "-pools", "180" if quick else "600", "-workers", "6",
                        "-rounds", "60"])]
    for name, extra in modes:
        tp = os.path.join(scratch, "conc_%s.ndjson" % name)
        rc, o, err = run_harness(binary, ["hdrc", "-in", pools, "-out", tp, "-seed", str(sd)] + extra, timeout=3000)
        if rc != 0:
            raise Infra("hdrc (%s) failed: %s" % (name, err[-2000:]))
        lines += [l for l in open(tp).read().splitlines() if l.strip()]
    if not lines:
        raise Infra("hdrc produced no traces")
    out, st = run_tlc(scratch, "HeaderChainLin", cfg({"N": N, "Works": {1, 2}, "MaxDepth": 1000000, "P": 1000000, "MaxSubs": 1, "AutoEvery": 0},
                                                     spec="LSpec", invariants=["Emit"]),
                      files={"trace.ndjson": "\n".join(lines) + "\n"}, workers=NCPU, timeout=2400, name="hclin")
    if st.get("error") or st.get("violation") or "Model checking completed" not in out:
        raise Infra("HeaderChainLin did not complete: %s\n%s" % (st, out[-2000:]))
    ok = {t[1] for t in printed_tuples(out, "LINOK")}
    ok_nostream = {t[1] for t in printed_tuples(out, "LINOKNS")}
    overlaps = 0
    other = 0
    for i, l in enumerate(lines, 1):
        t = json.loads(l)
        c = t["calls"]
        if any(c[j]["s"] < c[k]["e"] for k in range(len(c)) for j in range(k + 1, len(c))):
            overlaps += 1
        if i in ok:
            continue
        # the stream conjuncts belong to C07, everything else (verdicts, tip, accepted set, work, links) to C01
        label = "C07" if i in ok_nostream else "C01"
        problem = t["final"].get("problem") or ""
        why = ("concurrent submissions: no order of the recorded calls is a behaviour of HeaderChain with the recorded "
               "verdicts and final state" if label == "C01" else
               "concurrent submissions: the chain the subscriber reconstructs is not the reported chain")
        if problem:
            why += " (" + problem + ")"
        if label != prop:
            other += 1
            continue
        f = match_finding(prop, why)
        if f:
            res.add_known(f, why)
            continue
        res.violation("%s [%s mode, trace %d, pool parent=%s work=%s, final tip %s chain %s]" % (
            why, "stall" if t.get("stall") else "plain", t["id"], t["parent"], t["work"], t["final"]["tip"], t["final"]["chain"]),
            {"engine": "hdrc", "seed": sd, "trace": t})
    res.sample({"concurrent_trace": json.loads(lines[sd % len(lines)])})
    return {"traces": len(lines), "with_overlapping_calls": overlaps, "linearized": len(ok),
            "attributed_to_other_property": other, "tlc_states": st["distinct"],
            "modes": "plain: fresh repository per run, subscriber reading with small delays; stall: subscriber 10000 headers "
                     "behind (channel full), 60 rounds per repository, reconstruction compared after the last round"}


def validate_locators(scratch, files, res):
    """Concatenates the locator records of all probe runs and lets TLC judge them."""
    lines = []
    for f in files:
        with open(f) as fh:
            lines += [l for l in fh.read().splitlines() if l.strip()]
    if not lines:
        raise Infra("C19: no locator records were produced")
    # group by (N, S) because the trace spec takes them as constants
    groups = {}
    for l in lines:
        r = json.loads(l)
        groups.setdefault((len(r["parent"]), r["S"]), []).append(l)
    total = 0
    for (N, S), ls in sorted(groups.items()):
        trace = "\n".join(ls) + "\n"
        out, st = run_tlc(scratch, "HeaderLocatorTrace",
                          cfg({"N": N, "Works": {1, 2}, "MaxDepth": 1, "P": 2, "MaxSubs": 1, "AutoEvery": 0, "S": S},
                              spec="TSpec", invariants=["Judged"], postcondition="Accepted"),
                          files={"trace.ndjson": trace}, workers=1, timeout=1800, name="loc_%d_%d" % (N, S))
        if st.get("error") or "Model checking completed" not in out:
            raise Infra("locator trace validation did not complete: %s\n%s" % (st, out[-3000:]))
        total += len(ls)
        if len(res.coverage["samples"]) < 8:
            r0 = json.loads(ls[0])
            res.sample({"locator_record": {k: r0[k] for k in ("parent", "acc", "tip", "S", "locs", "probes")}})
        from common import printed_tuples
        for t in printed_tuples(out, "LOCBAD"):
            # t = ("LOCBAD", line, reason, json)
            reason = t[2]
            rec = json.loads(ls[t[1] - 1])
            f = match_finding("C19", reason, None)
            if f:
                res.add_known(f, reason)
                continue
            res.violation("locator: %s (N=%d S=%d record %d)" % (reason, N, S, t[1]),
                          {"engine": "headers-locator", "reason": reason, "record": rec})
    return total


def replay(prop, path):
    """Re-runs one recorded violating behaviour."""
    with open(path) as fh:
        rp = json.load(fh)["replay"]
    if "behaviour" not in rp:
        # locator records, linearization traces, crash images of a behaviour ...: the file holds the observation itself
        print("the replay file holds the recorded observation (engine %s); it is re-examined by re-running ./check %s" % (
            rp.get("engine", "?"), prop))
        return 0
    with Scratch(prop + "_replay") as scratch:
        binary = build_harness(scratch)
        p = os.path.join(scratch, "beh.jsonl")
        with open(p, "w") as fh:
            fh.write(json.dumps(rp["behaviour"]) + "\n")
        args = ["hdr", "-s", str(rp["S"]), "-d", str(rp["D"]), "-p", str(rp["P"]), "-seed", str(rp.get("seed", 1)),
                "-workers", "1", "-in", p] + [f for f in rp.get("flags", []) if f != "-probe"]
        rc, out, err = run_harness(binary, args)
        r = json.loads(out)
        for d in (r["divergences"] or []):
            print("%s step %d %s b=%d: %s" % (d["prop"], d["step"], d["op"], d["b"], d["msg"]))
        mine = [d for d in r["divergences"] if d["prop"] == prop]
        if mine:
            print("VIOLATION property=%s replay=%s" % (prop, path))
            return 1
        print("not reproduced")
        return 0
