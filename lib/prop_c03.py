"""C03: header side - SplitGuard.tla (offers around the split height in any order) replayed on a mainnet
headers.Repository built on the real chain of the repository's fixtures, split protection on;
peer side - PeerSession.tla sessions over every class of reply to the verification request."""
import json
import os

import engine_session
from common import (Infra, NCPU, Result, Scratch, build_harness, cfg, match_finding, q, run_harness, run_tlc, seed, tlc_ok)

ALL = ["m3", "m2", "m1", "bsv", "m_1", "m_2", "bch", "x0", "f1", "f1x", "g3", "g2", "g1", "g0", "late", "orph", "gen1", "h2", "h1", "h0", "clean"]  # "adv" only in its own family
REAL = ["m3", "m2", "m1", "bsv", "m_1", "m_2", "bch"]
FOCUS = ["m3", "m2", "m1", "bsv", "bch", "x0", "f1", "f1x", "g3", "g2", "g1", "g0"]
# a fork (g2 g1) of the real chain, a heavier fork (h1) of that fork, maintenance at any point, then offers at the split height
NESTED = ["m3", "m2", "m1", "bsv", "bch", "g3", "g2", "g1", "g0", "h2", "h1", "h0", "clean"]


def sg_cfg(depth, names, **kw):
    return cfg({"Depth": depth, "Offerable": {q(n) for n in names}, "Prefix": "NOPREFIX"}, spec="Spec", **kw).replace(
        "Prefix = NOPREFIX", "Prefix <- ThePrefix")


def sg_module(prefix):
    return "---- MODULE SGRun ----\nEXTENDS SplitGuard\nThePrefix == <<%s>>\n====\n" % ",".join(q(n) for n in prefix)


def run(tier):
    res = Result("C03", tier, "model_checking")
    sd = seed()
    quick = tier == "quick"
    with Scratch("C03") as scratch:
        binary = build_harness(scratch)
        out, st = run_tlc(scratch, "SGRun", sg_cfg(4 if quick else 5, ALL,
                                                   invariants=["AtSplitOnlyBSV", "ForeignAlwaysRefused", "BSVAccepted"]),
                          files={"SGRun.tla": sg_module([])}, workers=NCPU, timeout=2400, name="sgexh")
        tlc_ok(out, st, "SplitGuard")
        res.coverage["states"] = st["distinct"]
        res.coverage["transitions"] = st["generated"]
        res.coverage["exhaustive_cfgs"] = ["SplitGuard all %d pool headers, %d offers: %d distinct" % (len(ALL), 4 if quick else 5, st["distinct"])]
        total = 0
        runs = []
        P0 = []
        # a fork (g3 g2 g1) next to the real 556764, then every order of a heavier fork of that fork, maintenance and offers
        PN = ["m3", "g3", "g2"]
        plans = [("bfs", REAL, 5 if quick else 6, 0, P0), ("bfs", FOCUS, 4 if quick else 5, 0, P0),
                 ("sim", ALL, 10, 600 if quick else 6000, P0), ("sim", FOCUS, 9, 400 if quick else 4000, P0),
                 ("sim", NESTED, 9, 600 if quick else 6000, P0),
                 ("bfs", ["g1", "g0", "h2", "h1", "h0", "clean", "m2"], 7 if quick else 9, 0, PN),
                 ("sim", ["g1", "g0", "h2", "h1", "h0", "clean", "m2", "m1", "bsv", "bch"], 12, 600 if quick else 6000, PN),
                 # forks created below the split, then the real chain advances 150 headers past it (deeper than the fork
                 # depth limit), then every order of offers at the split height on the main chain and on those forks
                 ("bfs", ["f1x", "g0", "x0", "bch", "clean"], 14 if quick else 15, 0,
                  ["m3", "m2", "m1", "f1", "g3", "g2", "g1", "bsv", "m_1", "m_2", "adv"])]
        for i, (mode, names, depth, num, prefix) in enumerate(plans):
            mod = {"SGRun.tla": sg_module(prefix)}
            if mode == "bfs":
                out, st = run_tlc(scratch, "SGRun", sg_cfg(depth, names, invariants=["Emit"]), files=mod, workers=1, timeout=2400,
                                  name="sg%d" % i)
            else:
                out, st = run_tlc(scratch, "SGRun", sg_cfg(depth, names, invariants=["Emit"]), files=mod, workers=1, simulate=num,
                                  depth=depth + 1, tlc_seed=sd * 10 + i, timeout=2400, name="sg%d" % i)
            if st.get("error"):
                raise Infra("SplitGuard generation failed: %s\n%s" % (st, out[-2000:]))
            p = os.path.join(scratch, "sg_%d.txt" % i)
            with open(p, "w") as fh:
                fh.write(out)
            del out
            rc, o, err = run_harness(binary, ["spl", "-in", p, "-repo", os.environ.get("VERIF_REPO", "/repo")], timeout=3000)
            if rc != 0 or not o.strip():
                raise Infra("spl harness failed: " + err[-2000:])
            r = json.loads(o)
            nb = sum(r["behaviours"].values())
            if nb == 0:
                raise Infra("no SplitGuard behaviours")
            total += nb
            runs.append({"mode": mode, "alphabet": len(names), "depth": depth, "behaviours": r["behaviours"],
                         "offers": r["offers"], "verdicts": r["verdicts"], "diverging": len(r["divergences"])})
            for s in (r.get("samples") or [])[:1]:
                res.sample({"offers": [[x["b"], x["verdict"]] for x in json.loads(s)["offers"]]})
            for d in r["divergences"]:
                f = match_finding("C03", d["msg"])
                if f:
                    res.add_known(f, d["msg"])
                    continue
                res.violation("%s (%s repository, behaviour %d step %d)" % (d["msg"], d.get("mode", ""), d["beh"], d.get("step", 0)),
                              {"engine": "spl", "divergence": d, "behaviour": json.loads(d["line"]) if d.get("line") else None})
        res.coverage["traces_validated_against_impl"] = total
        res.coverage["evaluations"] = total
        res.coverage["distinct_nontrivial"] = total
        res.coverage["split_runs"] = runs
        res.coverage["rule"] = ("header side: every sequence of offers over the pool of SplitGuard.tla (real chain 556764..556769, "
                                "BSV and BCH split headers, other headers at the split height on the main chain and on forks created "
                                "one and two below, unknown parents) up to the BFS depth plus simulated longer ones, replayed on a "
                                "mainnet repository with split protection on; peer side:")
        engine_session.run_into(res, "C03", tier, scratch, binary)
    res.assumptions += ["the 80 bytes of the BTC split header (478559) are not available offline: the BTC entry is covered by "
                        "the comparison of the split table with the specification's constants and by the shared code path",
                        "fabricated headers at and around the split height are offered with the difficulty check off; the "
                        "real-chain variant (difficulty on, real headers only) is run on a sample of the behaviours"]
    return res.finish()


def replay(path):
    return engine_session.replay("C03", path)
