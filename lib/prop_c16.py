"""C16: BlockDownload.tla (every interleaving of Run / handler / Cancel / Stop / interrupt, liveness under fairness)
+ BlockDownloadGen behaviours replayed on a real BlockDownloader with a mirror of the node's request bookkeeping (bdl)
+ the node-side window on the real BitcoinNode over net.Pipe with seed-chosen schedules (bdn)
+ BlockManage.tla and traces of the real BlockManager validated by TLC (bmg / BlockManageTrace)."""
import collections
import json
import os

from common import (Infra, NCPU, Result, Scratch, build_harness, cfg, match_finding, printed_tuples, q, run_harness, run_tlc,
                    seed, tlc_ok)


def run(tier):
    res = Result("C16", tier, "model_checking")
    sd = seed()
    quick = tier == "quick"
    states = transitions = 0
    desc = []
    with Scratch("C16") as scratch:
        binary = build_harness(scratch)
        # 1. the downloader protocol, every interleaving, termination under weak fairness
        for ntx in ([1, 2] if quick else [0, 1, 2, 3]):
            out, st = run_tlc(scratch, "BlockDownload", cfg({"NTx": ntx}, spec="Spec",
                                                            invariants=["NoSendBlocked", "CompleteOnlyAfterOk"],
                                                            properties=["RunReturns"]), workers=NCPU, timeout=2400,
                              name="bd%d" % ntx)
            tlc_ok(out, st, "BlockDownload NTx=%d" % ntx)
            states += st["distinct"]
            transitions += st["generated"]
            desc.append("BlockDownload NTx=%d: %d distinct / %d generated, RunReturns (liveness) holds" % (ntx, st["distinct"], st["generated"]))
        # 2. the manager layer
        for (nreq, conc, maxdl) in ([(2, 2, 5)] if quick else [(2, 2, 6), (3, 1, 5), (2, 3, 6)]):
            out, st = run_tlc(scratch, "BlockManage", cfg({"NReq": nreq, "Conc": conc, "MaxDl": maxdl}, spec="Spec",
                                                          invariants=["AtMostOneTerminal", "CompleteOnlyAfterOk", "ConcurrencyBound"],
                                                          properties=["ListDrains"]), workers=NCPU, timeout=2400,
                              name="bm%d%d" % (nreq, conc))
            tlc_ok(out, st, "BlockManage")
            states += st["distinct"]
            transitions += st["generated"]
            desc.append("BlockManage %d requests, %d concurrent: %d distinct / %d generated" % (nreq, conc, st["distinct"], st["generated"]))

        # 3. spec -> code at call granularity
        total_beh = 0
        bdl_runs = []
        for (ntx, depth) in ([(1, 8), (2, 7)] if quick else [(0, 8), (1, 10), (2, 10), (3, 9)]):
            out, st = run_tlc(scratch, "BlockDownloadGen", cfg({"NTx": ntx, "Depth": depth}, spec="GSpec", invariants=["Emit"]),
                              workers=1, timeout=2400, name="gen%d" % ntx)
            if st.get("error") or "Model checking completed" not in out:
                raise Infra("BlockDownloadGen failed: %s\n%s" % (st, out[-2000:]))
            p = os.path.join(scratch, "bdl_%d.txt" % ntx)
            with open(p, "w") as fh:
                fh.write(out)
            rc, o, err = run_harness(binary, ["bdl", "-in", p, "-workers", str(NCPU), "-rush", "6" if quick else "20"], timeout=3000)
            if rc != 0 or not o.strip():
                raise Infra("bdl harness failed: " + err[-2000:])
            r = json.loads(o)
            if r["behaviours"] == 0:
                raise Infra("no BlockDownloadGen behaviours")
            total_beh += r["behaviours"]
            bdl_runs.append({"NTx": ntx, "depth": depth, "behaviours": r["behaviours"], "event_sequences": r["event_sequences"],
                             "events": r["events"], "final_results": r["final_results"], "racing_runs": r.get("racing_runs", 0),
                             "goroutines_parked_in_downloader": r["goroutines_parked_in_downloader"],
                             "diverging": sum(r["signatures"].values())})
            for s in (r.get("samples") or [])[:1]:
                b = json.loads(s)
                res.sample({"events": [[e["ev"], e["obs"]["runDone"], e["obs"]["result"], e["obs"]["handler"]] for e in b["events"]]})
            if r["goroutines_parked_in_downloader"] > 0:
                res.violation("%d goroutines still parked inside BlockDownloader after all behaviours ended" % r["goroutines_parked_in_downloader"],
                              {"engine": "bdl", "NTx": ntx})
            for d in r["divergences"]:
                f = match_finding("C16", d["msg"])
                if f:
                    res.add_known(f, d["msg"])
                    continue
                res.violation("%s (events %s)" % (d["msg"], " ".join(d["trace"])),
                              {"engine": "bdl", "behaviour": json.loads(d["line"]), "trace": d["trace"]})

        # 4. the node-side window on the real BitcoinNode
        rc, o, err = run_harness(binary, ["bdn", "-seed", str(sd), "-count", str(150 if quick else 2500), "-workers", "8"],
                                 timeout=3000)
        if rc != 0 or not o.strip():
            raise Infra("bdn harness failed: " + err[-2000:])
        r = json.loads(o)
        bdn = r["by_mode"]
        for k, n in r["known"].items():
            f = match_finding("C16", k)
            if f:
                for _ in range(n):
                    res.add_known(f, k)
            else:
                res.violation(k, {"engine": "bdn", "seed": sd})
        for v in r["violations"]:
            f = match_finding("C16", v["msg"])
            if f:
                res.add_known(f, v["msg"])
                continue
            res.violation("%s: %s" % (v["scenario"], v["msg"]), {"engine": "bdn", "seed": sd, "scenario": v})
        for s in (r.get("samples") or [])[:1]:
            res.sample({"node_window_schedule": s})

        # 5. traces of the real BlockManager validated against BlockManage.tla
        tp = os.path.join(scratch, "bm.ndjson")
        ntr = 150 if quick else 1500
        rc, o, err = run_harness(binary, ["bmg", "-seed", str(sd), "-traces", str(ntr), "-workers", "8", "-out", tp], timeout=3000)
        if rc != 0:
            raise Infra("bmg harness failed: " + err[-2000:])
        groups = collections.defaultdict(list)
        for l in open(tp):
            t = json.loads(l)
            groups[(t["nreq"], t["conc"])].append(l)
        bm_traces = 0
        for (nreq, conc), ls in sorted(groups.items()):
            out, st = run_tlc(scratch, "BlockManageTrace", cfg({"NReq": nreq, "Conc": conc, "MaxDl": 60}, spec="TSpec"),
                              files={"trace.ndjson": "".join(ls)}, workers=4, timeout=1800, name="bmt%d%d" % (nreq, conc))
            if st.get("error") or "Model checking completed" not in out:
                raise Infra("BlockManageTrace did not complete: %s\n%s" % (st, out[-2000:]))
            ok = {t[1] for t in printed_tuples(out, "TROK")}
            bm_traces += len(ls)
            for i, l in enumerate(ls, 1):
                if i in ok:
                    continue
                t = json.loads(l)
                evs = [[e["ev"], e["r"], e["d"], e["res"], e["n"]] for e in t["events"]]
                why = "trace of the real BlockManager is not a behaviour of BlockManage.tla"
                if t.get("note"):
                    why += " (" + t["note"].strip() + ")"
                f = match_finding("C16", why)
                if f:
                    res.add_known(f, why)
                    continue
                res.violation(why + ": " + json.dumps(evs)[:400], {"engine": "bmg", "trace": t})
            if bm_traces == len(ls):
                res.sample({"manager_trace": [[e["ev"], e["r"], e["d"], e["res"]] for e in json.loads(ls[0])["events"]]})

        # 6. shutdown with a full request queue: RequestQueue.tla + the schedule of its rejected variant on the real manager
        consts = {"Cap": 2 if quick else 4, "Adders": {q("a1"), q("a2")} | (set() if quick else {q("a3")}), "MaxAdds": 3 if quick else 5,
                  "Order": q("conn")}
        out, st = run_tlc(scratch, "RequestQueue", cfg(consts, spec="Spec", invariants=["TypeOK", "MutexHeld"],
                                                       properties=["StopCompletes", "NobodyLeftBlocked"]),
                          workers=NCPU, timeout=2400, name="reqqueue")
        tlc_ok(out, st, "RequestQueue (interrupt first, as the code)")
        states += st["distinct"]
        transitions += st["generated"]
        out2, st2 = run_tlc(scratch, "RequestQueue", cfg(dict(consts, Cap=2, Adders={q("a1"), q("a2")}, Order=q("chan")), spec="Spec",
                                                         properties=["StopCompletes"]), workers=NCPU, timeout=1200, name="reqqueue_rev")
        if "StopCompletes" not in out2 or "violated" not in out2:
            raise Infra("RequestQueue: closing the queue before the interrupt is not rejected by TLC\n" + out2[-1500:])
        rc, o, err = run_harness(binary, ["bmq"], timeout=900)
        if rc != 0 or not o.strip():
            raise Infra("bmq harness failed: " + err[-2000:])
        bmq = json.loads(o)["scenarios"]
        for x in bmq:
            if x.get("msg"):
                f = match_finding("C16", x["msg"])
                if f:
                    res.add_known(f, x["msg"])
                    continue
                res.violation(x["msg"], {"engine": "bmq", "scenario": x})
        bm_traces += len(bmq)

    res.coverage.update({
        "states": states, "transitions": transitions, "traces_validated_against_impl": total_beh + bm_traces,
        "evaluations": total_beh + bm_traces + sum(bdn.values()), "distinct_nontrivial": total_beh + bm_traces,
        "rule": "(a) every behaviour of BlockDownloadGen (all orderings, at quiescence granularity, of: block arrives, tx handed "
                "over / end of stream, manager Cancel, thread stop, peer drop, shutdown) replayed on a real BlockDownloader; "
                "(b) seed-chosen schedules on the real BitcoinNode with the block message delivered in pieces; (c) seed-chosen "
                "scenarios on the real BlockManager recorded and validated by TLC; (d) shutdown with a full request queue: "
                "RequestQueue.tla (TLC, both closing orders) and the blocked-shutdown schedule of the rejected order played "
                "on the real manager (1-3 callers, 5-16 requests, silent peers)",
        "exhaustive_cfgs": desc, "downloader_replay": bdl_runs, "node_window_scenarios": bdn,
        "manager_traces_validated": bm_traces, "exhaustive": False,
    })
    res.assumptions += ["the 2 min / 1 h / 10 min timers of the downloader are not relied upon: a Run that only they would end "
                        "counts as not returning",
                        "in (a) the node side is a mirror of BitcoinNode's request bookkeeping as modelled in the spec; the real "
                        "node is exercised in (b)"]
    return res.finish()


def replay(path):
    print("C16 replays are scheduling dependent; re-run ./check C16")
    return 0
