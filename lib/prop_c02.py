"""C02: Daa.tla - the network's difficulty rule as a case analysis (median-of-three by swap network, signed clamped
span); every case is built as a real 150-header chain (main and fork) and the bits the real code requires are
compared; plus the real fixture chains with the difficulty check on, single-field mutations of real headers with an
independently predicted verdict, and every bits encoding in an isolated worker."""
import json
import os
import subprocess

from common import (GOENV, Infra, NCPU, Result, Scratch, build_harness, cfg, match_finding, run_harness, run_tlc, seed, tlc_ok)


def run(tier):
    res = Result("C02", tier, "model_checking")
    sd = seed()
    quick = tier == "quick"
    repo_dir = os.environ.get("VERIF_REPO", "/repo")
    with Scratch("C02") as scratch:
        binary = build_harness(scratch)
        times = "{0, 50000, 100000, 300000}" if quick else "{0, 40000, 50000, 100000, 300000}"
        c = cfg({"Times": "TIMES"}, spec="Spec", invariants=["SelectsMedian", "SpanInRange", "ProjectedSmall", "EmitCase"]).replace("TIMES", times)
        out, st = run_tlc(scratch, "Daa", c, workers=1, timeout=3000, name="daa")
        tlc_ok(out, st, "Daa")
        p = os.path.join(scratch, "daa_cases.txt")
        with open(p, "w") as fh:
            fh.write(out)
        del out
        args = ["daa", "-mode", "cases", "-in", p, "-seed", str(sd), "-workers", str(NCPU)]
        rc, o, err = run_harness(binary, args, timeout=3000)
        if rc != 0 or not o.strip():
            raise Infra("daa cases failed: " + err[-2000:])
        r = json.loads(o)
        if r["cases"] == 0:
            raise Infra("no DAA cases")
        for d in r["divergences"]:
            what = "%s (first window %s, last window %s: endpoints %d/%d, span %d)" % (
                d["msg"], d["case"]["first"], d["case"]["last"], d["case"]["firstSel"], d["case"]["lastSel"], d["case"]["span"])
            f = match_finding("C02", what)
            if f:
                res.add_known(f, what)
            else:
                res.violation(what, {"engine": "daa-cases", "case": d["case"]})
        extra = sum(r["signatures"].values()) - len(r["divergences"])
        if extra > 0:
            res.notes.append("%d further diverging cases not listed individually" % extra)
        res.sample({"daa_case": {"first": [300000, 0, 0], "last": [50000, 50000, 0], "meaning": "timestamps of (h-147,h-146,h-145) and (h-3,h-2,h-1)"}})

        # real chains, difficulty on
        rc, o, err = run_harness(binary, ["daa", "-mode", "real", "-repo", repo_dir], timeout=3000)
        if rc != 0 or not o.strip():
            raise Infra("daa real failed: " + err[-2000:])
        real = json.loads(o)
        for m in real["problems"]:
            f = match_finding("C02", m)
            if f:
                res.add_known(f, m)
            else:
                res.violation(m, {"engine": "daa-real"})
        # mutations of real headers
        muts = 0
        for k in range(2 if quick else 12):
            rc, o, err = run_harness(binary, ["daa", "-mode", "mutate", "-seed", str(sd * 10 + k), "-repo", repo_dir], timeout=3000)
            if rc != 0 or not o.strip():
                raise Infra("daa mutate failed: " + err[-2000:])
            m = json.loads(o)
            muts += m["mutations"]
            for pb in m["problems"]:
                f = match_finding("C02", pb)
                if f:
                    res.add_known(f, pb)
                else:
                    res.violation(pb, {"engine": "daa-mutate", "seed": sd * 10 + k})
        # every bits encoding, isolated worker
        pr = subprocess.run([binary, "daa", "-mode", "bits"], env=GOENV, stdout=subprocess.PIPE, stderr=subprocess.PIPE, timeout=600)
        bout = pr.stdout.decode("utf-8", "replace")
        nbits = bout.count("BITS ")
        if pr.returncode != 0 or "DONE" not in bout:
            last = [l for l in bout.splitlines() if l.startswith("BITS ")][-1:] or ["?"]
            err_txt = pr.stderr.decode("utf-8", "replace")
            first = next((l for l in err_txt.splitlines() if l.startswith("panic:") or l.startswith("fatal error:")), err_txt[:200])
            what = "process crash on a header with %s: %s" % (last[0].replace("BITS", "bits"), first)
            f = match_finding("C02", what)
            if f:
                res.add_known(f, what)
            else:
                res.violation(what, {"engine": "daa-bits", "stderr": err_txt[:2000]})
    res.coverage.update({
        "states": st["distinct"], "transitions": st["generated"],
        "traces_validated_against_impl": r["cases"] * 2,
        "evaluations": r["cases"] * 2 + real["real_headers_accepted"] + muts + nbits,
        "distinct_nontrivial": r["cases"],
        "rule": "every assignment of timestamps from the domain to the six endpoint blocks (ties in every position, decreasing, "
                "far future, negative span): TLC selects the endpoints and the clamped span, the harness builds the chain and "
                "compares the required bits on the main chain, on a fork, and on a chain of one-unit-of-work headers (projected "
                "work 0, 1 or 2 as the specification says: the cap); plus real chains (also won back after a 2 / 3 header fork "
                "overtook them), low-work windows at four spacings, header mutations, bits encodings",
        "daa_cases": r["cases"], "clamp_classes": r["clamp_classes"], "cases_with_ties": r["cases_with_ties"],
        "real_headers_accepted": real["real_headers_accepted"], "header_mutations": muts, "bits_encodings": nbits,
        "exhaustive": True,
    })
    res.assumptions += ["256-bit arithmetic, SHA-256 and the compact encoding are outside TLC: the harness applies the network's "
                        "formulas to the endpoints and span TLC selected, and is pinned to mainnet by the fixture chains",
                        "the case chains are built with the difficulty check off (their hashes do not meet their bits) and "
                        "queried through the VerifTarget hook"]
    return res.finish()


def replay(path):
    print("re-run ./check C02 (cases are enumerated deterministically)")
    return 0
