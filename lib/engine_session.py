"""Peer-session engine: PeerSession.tla (exhaustive, asynchronous handshake) + PeerSessionGen (sessions with the
expected outputs / sink calls / state per message) + the scripted-peer harness `sess` against a real BitcoinNode
over net.Pipe.  Serves C13, C14 and the peer half of C03."""
import json
import os

from common import (Infra, NCPU, Result, Scratch, build_harness, cfg, match_finding, q, run_harness, run_tlc, seed,
                    tlc_ok)

ALL = ["version", "verack", "ping", "pongOK", "pongBad", "protoconf", "reject", "addr", "getaddr", "inv", "invBlock",
       "tx", "block", "extTx", "extBlock", "extOther", "other", "hdrBSV", "hdrBCH", "hdrUnknown", "hdrEmpty",
       "hdrBSVSecond", "hdrGood", "hdrBad", "hdrTxCount", "hdrBSVShort", "hdrGoodShort", "txAgain", "invSeen"]
HDR = [m for m in ALL if m.startswith("hdr")]
# messages a conformant, verified peer may send without the connection being closed by design
CONFORMANT_READY = ["ping", "pongOK", "reject", "addr", "getaddr", "inv", "invBlock", "tx", "block", "extTx", "extBlock",
                    "extOther", "other", "hdrGood", "hdrEmpty", "version", "verack", "reqblock", "blockWanted", "txAgain", "invSeen"]
HANDSHAKE = ["version", "verack", "hdrBSV"]

EXH_INV = ["ReadyImpliesVerified", "VerifyOnlyDisconnects", "NeverReadyWhenVerifyOnly", "VerifyOnlyNeverWaits",
           "InSyncWhileReady"]
EXH_PROPS = ["NoSinkBeforeReady", "ReadyNeedsHandshakeAndBSV", "PingAnswered", "OnlyBSVVerifies", "NeverDeafWhileReady"]


def gen_module(prefix):
    return ("---- MODULE PSRun ----\nEXTENDS PeerSessionGen\nThePrefix == <<%s>>\n====\n" % ",".join(q(m) for m in prefix))


def gen_cfg(verifyonly, txmgr, depth, alphabet):
    c = cfg({"VerifyOnly": verifyonly, "HasTxMgr": txmgr, "QCap": 10, "MaxMsgs": 10000, "Depth": depth,
             "Alphabet": {q(m) for m in alphabet}, "Prefix": "PFX"}, spec="GSpec", invariants=["Emit"])
    return c.replace("Prefix = PFX", "Prefix <- ThePrefix")


def plans(prop, tier):
    quick = tier == "quick"
    P = []   # (verifyonly, txmgr, prefix, depth, alphabet, mode, num)
    if prop == "C13":
        # everything a peer can send before and during handshake and verification
        P.append((False, True, [], 3, ALL, "bfs", 0))
        P.append((True, True, [], 3, ALL, "bfs", 0))
        P.append((False, False, ["version"], 2, ALL, "bfs", 0))
        P.append((False, True, ["verack"], 2, ALL, "bfs", 0))
        P.append((False, True, ["version", "verack"], 2, ALL, "bfs", 0))
        P.append((True, False, ["verack", "version"], 2, ALL, "bfs", 0))
        P.append((False, True, [], 8, ALL, "sim", 300 if quick else 4000))
        P.append((True, True, [], 8, ALL, "sim", 200 if quick else 3000))
        if not quick:
            P.append((False, True, [], 4, ALL, "bfs", 0))
            P.append((False, True, ["version", "verack"], 3, ALL, "bfs", 0))
    elif prop == "C14":
        # conformant traffic of a verified peer, all classes, payload sizes chosen by the harness
        P.append((False, True, HANDSHAKE, 3, CONFORMANT_READY, "bfs", 0))
        P.append((False, False, HANDSHAKE, 2, CONFORMANT_READY, "bfs", 0))
        P.append((False, True, ["verack", "version", "hdrBSV"], 2, CONFORMANT_READY, "bfs", 0))
        P.append((False, True, HANDSHAKE, 14, CONFORMANT_READY, "sim", 300 if quick else 5000))
        P.append((False, False, HANDSHAKE, 14, CONFORMANT_READY, "sim", 200 if quick else 3000))
        # repetition: the same few commands many times (queues and counters that fill up)
        P.append((False, True, HANDSHAKE, 16, ["version", "verack", "ping"], "sim", 60 if quick else 600))
        P.append((False, True, HANDSHAKE, 16, ["inv", "tx", "hdrGood", "ping", "addr"], "sim", 60 if quick else 600))
        # the same transaction again and again: delivered, delivered once more, announced after it was received
        P.append((False, True, HANDSHAKE, 5, ["tx", "txAgain", "invSeen"], "bfs", 0))
        # block requested / not requested: wrong and wanted blocks, classic and extended framing, other traffic
        P.append((False, True, HANDSHAKE + ["reqblock"], 3, ["block", "blockWanted", "extBlock", "extOther", "other", "tx",
                                                              "reqblock", "ping"], "bfs", 0))
        P.append((False, False, HANDSHAKE, 10, ["other", "extOther"], "sim", 80 if quick else 1500))
        # the messages that close by design, once, at the end
        P.append((False, True, HANDSHAKE, 2, ALL, "bfs", 0))
        if not quick:
            P.append((False, True, HANDSHAKE, 4, CONFORMANT_READY, "bfs", 0))
    elif prop == "C03":
        # every reply class to the verification request, at every position of the handshake
        for vo in (False, True):
            P.append((vo, True, ["version", "verack"], 2, HDR + ["ping"], "bfs", 0))
            P.append((vo, True, ["verack", "version"], 2, HDR + ["ping"], "bfs", 0))
            P.append((vo, True, [], 3, HDR + ["version", "verack"], "bfs", 0))
        P.append((False, True, [], 7, HDR + ["version", "verack", "ping", "protoconf"], "sim", 200 if quick else 3000))
    return P


def run(prop, tier):
    res = Result(prop, tier, "model_checking")
    with Scratch(prop) as scratch:
        binary = build_harness(scratch)
        run_into(res, prop, tier, scratch, binary)
    return res.finish()


def run_into(res, prop, tier, scratch, binary):
    """Runs the session part for `prop` and merges its coverage into res."""
    sd = seed()
    quick = tier == "quick"
    states = transitions = 0
    total = 0
    runs = []
    if True:
        desc = []
        for (vo, tm, qcap, mm) in [(False, True, 3, 7 if quick else 8), (True, True, 3, 7), (False, False, 2, 6)]:
            out, st = run_tlc(scratch, "PeerSession", cfg({"VerifyOnly": vo, "HasTxMgr": tm, "QCap": qcap, "MaxMsgs": mm},
                                                          spec="Spec", invariants=EXH_INV, properties=EXH_PROPS),
                              workers=NCPU, timeout=2400, name="exh_%s_%s" % (vo, tm))
            tlc_ok(out, st, "PeerSession exhaustive")
            states += st["distinct"]
            transitions += st["generated"]
            desc.append("PeerSession verifyonly=%s txmgr=%s queue=%d msgs<=%d: %d distinct / %d generated" % (vo, tm, qcap, mm, st["distinct"], st["generated"]))

        for i, (vo, tm, prefix, depth, alphabet, mode, num) in enumerate(plans(prop, tier)):
            c = gen_cfg(vo, tm, len(prefix) + depth, alphabet)
            if mode == "bfs":
                out, st = run_tlc(scratch, "PSRun", c, files={"PSRun.tla": gen_module(prefix)}, workers=1, timeout=3000,
                                  name="gen%d" % i)
                if st.get("error") or "Model checking completed" not in out:
                    raise Infra("session generation failed: %s\n%s" % (st, out[-2000:]))
            else:
                out, st = run_tlc(scratch, "PSRun", c, files={"PSRun.tla": gen_module(prefix)}, workers=1, simulate=num,
                                  depth=2 * (len(prefix) + depth) + 4, tlc_seed=sd * 100 + i, timeout=3000, name="gen%d" % i)
                if st.get("error"):
                    raise Infra("session generation failed: %s\n%s" % (st, out[-2000:]))
            p = os.path.join(scratch, "sess_%d.txt" % i)
            with open(p, "w") as fh:
                fh.write(out)
            del out
            args = ["sess", "-in", p, "-workers", str(NCPU), "-seed", str(sd * 100 + i)]
            if not quick and prop == "C14":
                args.append("-big")
            rc, o, err = run_harness(binary, args, timeout=3000)
            if rc != 0 or not o.strip():
                raise Infra("sess harness failed: " + err[-2000:])
            r = json.loads(o)
            if r["sessions"] == 0:
                raise Infra("no sessions generated for plan %d" % i)
            total += r["sessions"]
            runs.append({"verifyonly": vo, "txmgr": tm, "prefix": prefix, "depth": depth, "mode": mode,
                         "sessions": r["sessions"], "messages": r["steps"], "classes": len(r["classes"]),
                         "diverging": len({d["beh"] for d in r["divergences"]})})
            for s in (r.get("samples") or [])[:1]:
                b = json.loads(s)
                res.sample({"verifyonly": b["verifyonly"], "txmgr": b["txmgr"],
                            "messages": [[x["msg"], x["out"], x["sinks"], x["st"]["ready"], x["st"]["closed"]] for x in b["steps"]]})
            by_beh = {}
            for d in r["divergences"]:
                by_beh.setdefault(d["beh"], []).append(d)
            extra = [d for d in r["divergences"] if d["prop"].startswith("X-")]
            if extra:
                res.notes.append("beyond the listed properties (not a verdict): %d sessions in which %s" % (
                    len({d["beh"] for d in extra}), extra[0]["msg"]))
            for beh, ds in by_beh.items():
                mine = [d for d in ds if d["prop"] == prop]
                if not mine:
                    continue
                d = mine[0]
                f = match_finding(prop, d["msg"])
                if f:
                    res.add_known(f, d["msg"])
                    continue
                res.violation("%s (session %d step %d: %s)" % (d["msg"], beh, d["step"], " ".join(d.get("trace", []))),
                              {"engine": "sess", "behaviour": json.loads(d["line"]), "divergences": ds,
                               "seed": sd * 100 + i})
    nsel = None
    if prop == "C13":
        nsel, st2, tr2 = node_selection(res, tier, scratch, binary, sd)
        states += st2
        transitions += tr2
        total += nsel["behaviours"]
        desc.append(nsel.pop("exhaustive"))
        oc = out_channel(res, tier, scratch, binary)
        states += oc["states"]
        transitions += oc["transitions"]
        total += oc["scenarios_that_reached_verification"]
        desc.append(oc.pop("exhaustive"))
    cov = res.coverage
    if nsel:
        cov["node_selection"] = nsel
        cov["peer_that_never_reads"] = oc
    cov["states"] = cov.get("states", 0) + states
    cov["transitions"] = cov.get("transitions", 0) + transitions
    cov["traces_validated_against_impl"] = cov.get("traces_validated_against_impl", 0) + total
    cov["evaluations"] = cov.get("evaluations", 0) + total
    cov["distinct_nontrivial"] = cov.get("distinct_nontrivial", 0) + total
    cov["rule"] = (cov.get("rule", "") + " sessions = sequences of inbound message classes generated by TLC from PeerSessionGen "
                   "(BFS over the alphabet after a forced prefix, and random simulation), each played by a scripted peer with "
                   "real, correctly framed messages (payload sizes chosen by seed) against a real BitcoinNode over net.Pipe; "
                   "after every message a ping barrier, then outputs / sink calls / node state are compared with the spec").strip()
    cov["exhaustive_cfgs"] = cov.get("exhaustive_cfgs", []) + desc
    cov["session_runs"] = runs
    cov["exhaustive"] = False
    res.assumptions += ["the scripted peer waits for the handshake goroutine to go quiet after version/verack (the "
                        "asynchronous interleavings are covered by the exhaustive PeerSession configuration only)",
                        "a session that diverges is re-run once; only a divergence that repeats is reported",
                        "the 3 s handshake timeout, the 10 min ping period and the node timeout are not exercised"]


def node_selection(res, tier, scratch, binary, sd):
    """C13, "never selected to serve header, transaction or block requests": NodeSelect.tla exhaustively, then its
    behaviours replayed on the real NodeManager with real BitcoinNodes behind pipes (harness nsel)."""
    quick = tier == "quick"
    nodes = {q("a"), q("b"), q("c")}
    out, st = run_tlc(scratch, "NodeSelect", cfg({"Nodes": nodes if quick else nodes | {q("d")}, "None": q("none")}, spec="Spec",
                                                 invariants=["TypeOK", "NoDuplicates"], properties=["SelectedIsReady", "FindsOne"]),
                      workers=NCPU, timeout=2400, name="nsel_exh")
    tlc_ok(out, st, "NodeSelect exhaustive")
    exh = "NodeSelect %d connections: %d distinct / %d generated" % (3 if quick else 4, st["distinct"], st["generated"])
    states, transitions = st["distinct"], st["generated"]
    depth = 9 if quick else 11
    out, st = run_tlc(scratch, "NodeSelectGen", cfg({"Nodes": nodes, "None": q("none"), "Depth": depth}, spec="GSpec",
                                                    invariants=["Emit"]),
                      workers=1, simulate=300 if quick else 3000, depth=depth + 1, tlc_seed=sd * 100 + 13, timeout=1800,
                      name="nsel_gen")
    if st.get("error") or st.get("violation"):
        raise Infra("NodeSelectGen failed: %s\n%s" % (st, out[-2000:]))
    p = os.path.join(scratch, "nsel.txt")
    with open(p, "w") as fh:
        fh.write(out)
    rc, o, err = run_harness(binary, ["nsel", "-in", p, "-seed", str(sd), "-workers", str(NCPU)], timeout=3000)
    if rc != 0 or not o.strip():
        raise Infra("nsel harness failed: " + err[-2000:])
    r = json.loads(o)
    stt = r["stats"]
    if stt["behaviours"] == 0 or stt["requests"] == 0:
        raise Infra("no node-selection behaviours replayed")
    if stt["behaviours_abandoned_by_harness"] * 10 > stt["behaviours"]:
        raise Infra("node-selection harness abandoned %d of %d behaviours: %s" % (
            stt["behaviours_abandoned_by_harness"], stt["behaviours"], r["skipped"]))
    for d in r["divergences"]:
        f = match_finding("C13", d["msg"])
        if f:
            res.add_known(f, d["msg"])
            continue
        res.violation("%s (node-selection behaviour %d step %d)" % (d["msg"], d["beh"], d["step"]),
                      {"engine": "nsel", "behaviour": json.loads(d["line"]), "seed": sd})
    res.assumptions.append("node selection: RequestTxs uses the same walk (nextNode without a data filter) as RequestHeaders and is "
                           "not driven separately; which of several qualifying connections is asked is counted, not judged")
    stt["exhaustive"] = exh
    stt["skipped"] = r["skipped"]
    return stt, states, transitions


def out_channel(res, tier, scratch, binary):
    """C13, "a verify-only connection disconnects as soon as verification succeeds" - also from a peer that does not
    read: OutChannel.tla (outgoing queue, its mutex, sender goroutine, Stop) proves that a Stop completes whatever
    the peer does with the closing order of the code, and yields, for the other order, the schedule (queue full, an
    adder waiting with the mutex, Stop) that the harness plays against the real node."""
    quick = tier == "quick"
    consts = {"Cap": 2 if quick else 4, "Adders": {q("read"), q("handshake")} | (set() if quick else {q("ping")}),
              "MaxAdds": 3 if quick else 5, "Order": q("conn")}
    out, st = run_tlc(scratch, "OutChannel", cfg(consts, spec="Spec", invariants=["TypeOK", "MutexHeld"],
                                                 properties=["StopCompletes", "NobodyLeftBlocked"]),
                      workers=NCPU, timeout=2400, name="outchan")
    tlc_ok(out, st, "OutChannel (order of the code)")
    # sensitivity of the specification: with the reverse closing order TLC must find the blocked Stop
    out2, st2 = run_tlc(scratch, "OutChannel", cfg(dict(consts, Cap=2, Adders={q("read"), q("handshake")}, Order=q("chan")), spec="Spec",
                                                   properties=["StopCompletes"]), workers=NCPU, timeout=1200, name="outchan_rev")
    if "StopCompletes" not in out2 or "violated" not in out2:
        raise Infra("OutChannel: the reverse closing order is not rejected by TLC - the specification lost its teeth\n" + out2[-1500:])
    apa = ""
    if not quick:
        # the structural invariants for every capacity 1..1000 (Apalache: inductive invariant, two steps)
        from common import run_apalache
        for args in (["--cinit=ConstInit", "--init=Init", "--inv=IndInv", "--length=0"],
                     ["--cinit=ConstInit", "--init=IndInv", "--inv=IndInv", "--length=1"]):
            ok, tail = run_apalache(scratch, "OutChannel", args, timeout=1200)
            if not ok:
                raise Infra("Apalache did not establish OutChannel.IndInv (%s):\n%s" % (" ".join(args), tail))
        apa = "; IndInv inductive for every capacity 1..1000 (Apalache)"
    rc, o, err = run_harness(binary, ["deafpeer"], timeout=900)
    if rc != 0 or not o.strip():
        raise Infra("deafpeer harness failed: " + err[-2000:])
    sc = json.loads(o)["scenarios"]
    reached = [x for x in sc if x["verified"]]
    if len(reached) < 4:
        raise Infra("deafpeer: only %d scenarios reached verification: %s" % (len(reached), sc))
    for x in sc:
        if x.get("msg", "").startswith("harness:"):
            raise Infra("deafpeer: " + x["msg"])
        if x.get("msg") and x.get("prop") == "C13":
            res.violation(x["msg"], {"engine": "deafpeer", "scenario": x})
    res.assumptions.append("peer that never reads: the outgoing queue is filled to within a few messages of its capacity "
                           "(995..1000 queued answers) from outside; which of the handshake's messages finds it full is "
                           "not observed, so every count in that window is played")
    return {"exhaustive": "OutChannel cap=%d adders=%d: %d distinct / %d generated; reverse closing order rejected by TLC%s" % (
                consts["Cap"], len(consts["Adders"]), st["distinct"], st["generated"], apa),
            "states": st["distinct"], "transitions": st["generated"], "scenarios": len(sc),
            "scenarios_that_reached_verification": len(reached),
            "scenarios_where_the_queue_filled_before_the_handshake": len([x for x in sc if not x["handshake_complete"]])}


def replay(prop, path):
    with open(path) as fh:
        rp = json.load(fh)["replay"]
    with Scratch(prop + "r") as scratch:
        binary = build_harness(scratch)
        if rp.get("engine") == "deafpeer":
            rc, o, err = run_harness(binary, ["deafpeer"], timeout=900)
            bad = [x for x in json.loads(o)["scenarios"] if x.get("prop") == prop]
            for x in bad:
                print(x["msg"])
            if bad:
                print("VIOLATION property=%s replay=%s" % (prop, path))
                return 1
            print("not reproduced")
            return 0
        if rp.get("engine") != "sess" or "behaviour" not in rp:
            print("the replay file holds the recorded observation (engine %s); it is re-examined by re-running ./check %s" % (
                rp.get("engine", "?"), prop))
            return 0
        p = os.path.join(scratch, "b.jsonl")
        with open(p, "w") as fh:
            fh.write(json.dumps(rp["behaviour"]) + "\n")
        rc, o, err = run_harness(binary, ["sess", "-in", p, "-workers", "1", "-seed", str(rp.get("seed", 1))])
        r = json.loads(o)
        for d in r["divergences"]:
            print(d["prop"], d["msg"])
        if any(d["prop"] == prop for d in r["divergences"]):
            print("VIOLATION property=%s replay=%s" % (prop, path))
            return 1
        print("not reproduced")
        return 0
