"""C20: PeerBook.tla (exhaustive) + PeerBookGen behaviours replayed on the real StoragePeerRepository with every
prefix of every saved file loaded, hostile stored bytes in isolated worker processes, and concurrent callers
linearized by TLC (PeerBookLin)."""
import json
import os
import subprocess

from common import (GOENV, Infra, NCPU, Result, Scratch, build_harness, cfg, match_finding, printed_tuples, q,
                    run_harness, run_tlc, seed, tlc_ok)

INV = ["NoDuplicates", "GetExact"]
PROPS = ["SaveLoadSame", "CutKeepsPrefix", "ScoreIsSum"]


def addrs(n):
    return {q("a%d" % i) for i in range(1, n + 1)}


def pcfg(n, deltas, bounds, maxscore, **kw):
    c = cfg({"Addrs": addrs(n), "Deltas": "DELTAS", "Bounds": "BOUNDS", "MaxScore": maxscore}, **kw)
    return c.replace("Deltas = DELTAS", "Deltas <- " + deltas).replace("Bounds = BOUNDS", "Bounds <- " + bounds)


def run(tier):
    res = Result("C20", tier, "model_checking")
    sd = seed()
    quick = tier == "quick"
    states = transitions = 0
    with Scratch("C20") as scratch:
        binary = build_harness(scratch)
        desc = []
        exh = [(2, "SmallDeltas", "SmallBounds", 1)] + ([] if quick else [(2, "DefDeltas", "DefBounds", 3)])
        for (n, dl, bd, ms) in exh:
            out, st = run_tlc(scratch, "PeerBook", pcfg(n, dl, bd, ms, spec="Spec", invariants=INV, properties=PROPS,
                                                        constraint="Bounded"), workers=NCPU, timeout=2400,
                              name="exh%d%s" % (n, dl))
            tlc_ok(out, st, "PeerBook exhaustive")
            states += st["distinct"]
            transitions += st["generated"]
            desc.append("%d addresses, %s, |score|<=%d: %d distinct / %d generated" % (n, dl, ms, st["distinct"], st["generated"]))

        # spec -> code
        total = 0
        prefixes = 0
        runs = []
        gens = [(3, "DefDeltas", "DefBounds", 6, 10, 300 if quick else 3000),
                (5, "WideDeltas", "WideBounds", 20, 14, 300 if quick else 3000),
                (2, "SmallDeltas", "SmallBounds", 3, 8, 200 if quick else 2000)]
        for i, (n, dl, bd, ms, depth, num) in enumerate(gens):
            c = pcfg(n, dl, bd, ms, spec="GSpec", invariants=["Emit"]).replace("CONSTANTS", "CONSTANTS\n  Depth = %d" % depth)
            out, st = run_tlc(scratch, "PeerBookGen", c, workers=1, simulate=num, depth=depth + 1, tlc_seed=sd * 100 + i,
                              timeout=1800, name="gen%d" % i)
            if st.get("error") or st.get("violation"):
                raise Infra("PeerBookGen failed: %s\n%s" % (st, out[-2000:]))
            p = os.path.join(scratch, "pb_%d.txt" % i)
            with open(p, "w") as fh:
                fh.write(out)
            rc, o, err = run_harness(binary, ["peers", "-in", p, "-workers", str(NCPU), "-seed", str(sd)], timeout=3000)
            if rc != 0 or not o.strip():
                raise Infra("peers harness failed: " + err[-2000:])
            r = json.loads(o)
            if r["stats"]["behaviours"] == 0:
                raise Infra("no PeerBook behaviours generated")
            total += r["stats"]["behaviours"]
            prefixes += r["stats"]["file_prefixes_loaded"]
            runs.append({"addresses": n, "depth": depth, "behaviours": r["stats"]["behaviours"], "steps": r["stats"]["steps"],
                         "ops": r["stats"]["ops"], "file_prefixes_loaded": r["stats"]["file_prefixes_loaded"],
                         "diverging": sum(r["signatures"].values())})
            for s in (r.get("samples") or [])[:1]:
                res.sample({"call_sequence": [x["ret"] for x in json.loads(s)["ops"]]})
            for k, d in enumerate(r["divergences"]):
                f = match_finding("C20", d["msg"])
                if f:
                    res.add_known(f, d["msg"])
                    continue
                res.violation("%s (step %d of behaviour %d)" % (d["msg"], d["step"], d["beh"]),
                              {"engine": "peers", "behaviour": json.loads(r["diverging_behaviours"][k]), "divergence": d})

        # hostile stored bytes, isolated workers
        nfiles = 3000 if quick else 60000
        loaded, crashes = hostile(binary, sd, nfiles, res)

        # concurrent callers
        tp = os.path.join(scratch, "pbc.ndjson")
        ntr = 300 if quick else 3000
        rc, o, err = run_harness(binary, ["peersconc", "-seed", str(sd), "-traces", str(ntr), "-rounds", "8",
                                          "-par", "3" if quick else "4", "-out", tp], timeout=3000)
        if rc != 0:
            raise Infra("peersconc failed: " + err[-2000:])
        trace = open(tp).read()
        out, st = run_tlc(scratch, "PeerBookLin", pcfg(3, "DefDeltas", "DefBounds", 1000, spec="LSpec"),
                          files={"trace.ndjson": trace}, workers=4, timeout=1800, name="lin")
        if st.get("error") or "Model checking completed" not in out:
            raise Infra("PeerBookLin did not complete: %s\n%s" % (st, out[-2000:]))
        ok = {t[1] for t in printed_tuples(out, "LINOK")}
        lines = trace.splitlines()
        for t in range(1, len(lines) + 1):
            if t not in ok:
                why = "concurrent calls on the peer book admit no order that explains their replies and the final book"
                f = match_finding("C20", why)
                if f:
                    res.add_known(f, why)
                    continue
                res.violation(why + " (trace %d)" % t, {"engine": "peersconc", "trace": json.loads(lines[t - 1])})
        res.sample({"concurrent_trace": json.loads(lines[0])})

    res.coverage.update({
        "states": states, "transitions": transitions, "traces_validated_against_impl": total + len(lines),
        "evaluations": total + prefixes + loaded + len(lines), "distinct_nontrivial": total,
        "rule": "TLC-simulated call sequences over abstract addresses (mapped to empty / IPv6 / 300-byte / non-ASCII / "
                "NUL-containing strings) replayed on the real repository with the whole book compared after every call; "
                "every proper prefix of every file Save wrote is loaded into a fresh repository; generated hostile files "
                "are loaded in isolated worker processes; distinct = de-duplicated call sequences",
        "exhaustive_cfgs": desc, "replay_runs": runs, "file_prefixes_loaded": prefixes,
        "hostile_files_loaded": loaded, "worker_crashes": crashes, "concurrent_traces_linearized": len(lines),
        "exhaustive": False,
    })
    res.assumptions += ["last-seen times are compared as zero / non-zero against the spec and for exact equality across "
                        "Save+Load (they are wall-clock seconds)",
                        "duplicate addresses inside a hostile stored file are not judged (only files written by Save are "
                        "required to be duplicate-free)"]
    return res.finish()


def hostile(binary, sd, nfiles, res):
    """Loads generated files in worker processes; a dead worker identifies the crashing input."""
    start = 0
    loaded = 0
    crashes = 0
    batch = 2000
    while start < nfiles:
        n = min(batch, nfiles - start)
        p = subprocess.run([binary, "peersbytes", "-seed", str(sd), "-from", str(start), "-count", str(n)], env=GOENV,
                           stdout=subprocess.PIPE, stderr=subprocess.PIPE, timeout=1800)
        out = p.stdout.decode("utf-8", "replace")
        lastload = -1
        for l in out.splitlines():
            if l.startswith("LOADING "):
                lastload = int(l.split()[1])
                loaded += 1
            elif l.startswith("BAD "):
                res.violation("loaded book unusable: " + l, {"engine": "peersbytes", "seed": sd, "line": l})
        if p.returncode == 0 and "DONE" in out:
            start += n
            continue
        # the worker died while loading file `lastload`
        crashes += 1
        err = p.stderr.decode("utf-8", "replace")
        first = next((l for l in err.splitlines() if l.startswith("panic:") or l.startswith("fatal error:")), err[:200])
        hexfile = subprocess.run([binary, "peersbytes", "-seed", str(sd), "-from", str(lastload), "-count", "1", "-list"],
                                 env=GOENV, stdout=subprocess.PIPE).stdout.decode().strip()
        what = "process crash while loading stored peers bytes: " + first
        f = match_finding("C20", what)
        if f:
            res.add_known(f, what)
        else:
            res.violation(what + " (file %d of seed %d)" % (lastload, sd),
                          {"engine": "peersbytes", "seed": sd, "index": lastload, "file_hex": hexfile, "stderr": err[:1500]})
        if crashes > 200:
            break
        start = lastload + 1
    return loaded, crashes


def replay(path):
    with open(path) as fh:
        rp = json.load(fh)["replay"]
    with Scratch("C20r") as scratch:
        binary = build_harness(scratch)
        if rp.get("engine") == "peers":
            p = os.path.join(scratch, "b.jsonl")
            with open(p, "w") as fh:
                fh.write(json.dumps(rp["behaviour"]) + "\n")
            rc, o, err = run_harness(binary, ["peers", "-in", p, "-workers", "1"])
            r = json.loads(o)
            for d in r["divergences"]:
                print(d["msg"])
            if r["divergences"]:
                print("VIOLATION property=C20 replay=%s" % path)
                return 1
        elif rp.get("engine") == "peersbytes":
            pr = subprocess.run([binary, "peersbytes", "-seed", str(rp["seed"]), "-from", str(rp["index"]), "-count", "1"],
                                env=GOENV, stdout=subprocess.PIPE, stderr=subprocess.PIPE)
            if pr.returncode != 0:
                print(pr.stderr.decode()[:600])
                print("VIOLATION property=C20 replay=%s" % path)
                return 1
        print("not reproduced")
        return 0
