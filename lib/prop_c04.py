"""C04: BlockVerify.tla - invariants checked by TLC over every case (committed block x relevant subset x streamed
corruption x announced count x fault); every case is then instantiated with real transactions and fed to a real
BlockDownloader.HandleBlock, whose calls to the processor / block tx manager and Complete value are compared."""
import json
import os

from common import (Infra, NCPU, Result, Scratch, build_harness, cfg, match_finding, run_harness, run_tlc, seed, tlc_ok)

INV = ["SideEffectsOnlyIfVerified", "ConfirmsAreRelevantInOrderOnce", "EveryProofVerifies", "ResultSet"]


def run(tier):
    res = Result("C04", tier, "model_checking")
    quick = tier == "quick"
    sd = seed()
    states = transitions = 0
    total = 0
    runs = []
    with Scratch("C04") as scratch:
        binary = build_harness(scratch)
        configs = [(3, False)] if quick else [(3, False), (4, False), (3, True)]
        desc = []
        for (K, arb) in configs:
            out, st = run_tlc(scratch, "BlockVerify", cfg({"K": K, "Arbitrary": arb}, spec="Spec", invariants=INV,
                                                          properties=["Terminates"]), workers=NCPU, timeout=3000,
                              name="exh%d%s" % (K, arb))
            tlc_ok(out, st, "BlockVerify K=%d" % K)
            states += st["distinct"]
            transitions += st["generated"]
            desc.append("K=%d %s: %d distinct / %d generated" % (K, "any stream" if arb else "single corruptions",
                                                                  st["distinct"], st["generated"]))
            # the same cases, exported with the calls and result the spec dictates
            out, st = run_tlc(scratch, "BlockVerify", cfg({"K": K, "Arbitrary": arb}, spec="Spec", invariants=["EmitCase"]),
                              workers=1, timeout=3000, name="cases%d%s" % (K, arb))
            if st.get("error") or "Model checking completed" not in out:
                raise Infra("case export failed: %s\n%s" % (st, out[-2000:]))
            p = os.path.join(scratch, "cases_%d_%s.txt" % (K, arb))
            with open(p, "w") as fh:
                fh.write(out)
            del out
            # the K=4 enumeration is an order of magnitude larger than K=3: every third case of it, chosen by the seed
            smp = ["-sample", "3", "-seed", str(sd)] if K >= 4 else []
            rc, o, err = run_harness(binary, ["blk", "-in", p, "-workers", str(NCPU)] + smp, timeout=3000 if quick else 9000)
            if rc != 0 or not o.strip():
                raise Infra("blk harness failed: " + err[-2000:])
            r = json.loads(o)
            if r["cases"] == 0:
                raise Infra("no cases exported")
            total += r["cases"]
            runs.append({"K": K, "arbitrary_streams": arb, "cases": r["cases"], "by_fault": r["by_fault"],
                         "by_result": r["by_result"], "diverging": sum(r["signatures"].values())})
            for s in (r.get("samples") or [])[:2]:
                c = json.loads(s)
                res.sample({k: c[k] for k in ("orig", "relevant", "sent", "count", "fault", "result")})
            reported = 0
            for d in r["divergences"]:
                f = match_finding("C04", d["msg"], d.get("facts"))
                if f:
                    res.add_known(f, d["msg"])
                    continue
                reported += 1
                res.violation("%s (case %d, K=%d)" % (d["msg"], d["case"], K),
                              {"engine": "blk", "case": json.loads(d["line"]), "facts": d.get("facts")})
            extra = sum(r["signatures"].values()) - len(r["divergences"])
            if extra > 0 and reported:
                res.notes.append("%d further diverging cases not listed individually" % extra)
    res.coverage.update({
        "states": states, "transitions": transitions, "traces_validated_against_impl": total,
        "evaluations": total, "distinct_nontrivial": total,
        "rule": "cases are the initial states of BlockVerify.tla (all of them, enumerated by TLC): committed block of 1..K "
                "distinct txs x every relevant subset x every single corruption of the stream (drop / insert incl. "
                "duplicates / swap / alter / repeated tail)%s x announced count in {len-1,len,len+1} x fault (none, wrong "
                "header, processor error at call k, cancel during call k, stream cut after k, coinbase / confirm / store "
                "error); each is executed once on a real BlockDownloader" % (" or any stream up to K+1 txs" if not quick else ""),
        "exhaustive_cfgs": desc, "replay_runs": runs, "exhaustive": True,
    })
    res.assumptions += ["SHA-256 collision freedom (merkle roots are modelled as terms)",
                        "the harness computes the header's merkle root with its own double-SHA-256 tree"]
    return res.finish()


def replay(path):
    with open(path) as fh:
        rp = json.load(fh)["replay"]
    with Scratch("C04r") as scratch:
        binary = build_harness(scratch)
        p = os.path.join(scratch, "c.jsonl")
        with open(p, "w") as fh:
            fh.write(json.dumps(rp["case"]) + "\n")
        rc, o, err = run_harness(binary, ["blk", "-in", p, "-workers", "1"])
        r = json.loads(o)
        for d in r["divergences"]:
            print(d["msg"])
        if r["divergences"]:
            print("VIOLATION property=C04 replay=%s" % path)
            return 1
        print("not reproduced")
        return 0
