"""C06: TxManager.tla (exhaustive) + TxManagerGen (bounded-exhaustive and simulated call sequences replayed on the
real TxManager) + TxManagerLin (TLC linearizes concurrent calls recorded from the real TxManager)."""
import json
import os
import random

from common import (Infra, NCPU, Result, Scratch, build_harness, cfg, match_finding, printed_tuples, q, run_harness,
                    run_tlc, seed, tlc_ok)

INV = ["ForwardedAtMostOnce", "OnePeerPerStep"]
PROPS = ["NeverAfterDelivery", "Requestable", "OneOutstandingPerWindow", "OnlyAnnouncersAsked", "HeldBackStaysDue"]


def names(prefix, n):
    return {q("%s%d" % (prefix, i)) for i in range(1, n + 1)}


def run(tier):
    res = Result("C06", tier, "model_checking")
    sd = seed()
    quick = tier == "quick"
    states = transitions = 0
    with Scratch("C06") as scratch:
        binary = build_harness(scratch)
        # 1. invariants and action properties, exhaustively
        exh = [(3, 2, 3)] if quick else [(3, 2, 3), (3, 3, 2), (4, 2, 2)]
        desc = []
        for (nn, nt, mt) in exh:
            out, st = run_tlc(scratch, "TxManager",
                              cfg({"Nodes": names("n", nn), "Txs": names("t", nt), "MaxTime": mt}, spec="Spec",
                                  invariants=INV, properties=PROPS), workers=NCPU, timeout=1800,
                              name="exh_%d_%d_%d" % (nn, nt, mt))
            tlc_ok(out, st, "TxManager %d nodes %d txs" % (nn, nt))
            states += st["distinct"]
            transitions += st["generated"]
            desc.append("%d nodes x %d txs x %d ticks: %d distinct / %d generated" % (nn, nt, mt, st["distinct"], st["generated"]))

        # 2. spec -> code: every call sequence up to the depth (BFS), deeper ones by simulation
        total_beh = 0
        runs = []
        gens = [("bfs", 2, 2, 2, 5 if quick else 6, None),
                ("sim", 3, 2, 3, 10, 400 if quick else 4000),
                ("sim", 3, 3, 2, 12, 300 if quick else 3000)]
        for i, (mode, nn, nt, mt, depth, num) in enumerate(gens):
            c = cfg({"Nodes": names("n", nn), "Txs": names("t", nt), "MaxTime": mt, "Depth": depth}, spec="GSpec",
                    invariants=["Emit"])
            if mode == "bfs":
                out, st = run_tlc(scratch, "TxManagerGen", c, workers=1, timeout=3000, name="gen%d" % i)
            else:
                out, st = run_tlc(scratch, "TxManagerGen", c, workers=1, simulate=num, depth=depth + 1,
                                  tlc_seed=sd * 100 + i, timeout=3000, name="gen%d" % i)
            if st.get("error") or st.get("violation"):
                raise Infra("TxManagerGen failed: %s\n%s" % (st, out[-2000:]))
            p = os.path.join(scratch, "txbeh_%d.txt" % i)
            with open(p, "w") as fh:
                fh.write(out)
            del out
            rc, o, err = run_harness(binary, ["txm", "-in", p, "-workers", str(NCPU)], timeout=3000)
            if rc != 0 or not o.strip():
                raise Infra("txm harness failed: " + err[-2000:])
            r = json.loads(o)
            if r["behaviours"] == 0:
                raise Infra("no behaviours generated for " + str(gens[i]))
            total_beh += r["behaviours"]
            runs.append({"mode": mode, "nodes": nn, "txs": nt, "ticks": mt, "depth": depth,
                         "behaviours": r["behaviours"], "steps": r["steps"], "ops": r["ops"],
                         "diverging": sum(r["signatures"].values())})
            for s in (r.get("samples") or [])[:1]:
                res.sample({"call_sequence": [[x["op"], x["n"], x["t"], x["req"], x["txs"]] for x in json.loads(s)["ops"]]})
            behs = r.get("diverging_behaviours") or []
            for k, d in enumerate(r["divergences"]):
                f = match_finding("C06", d["msg"])
                if f:
                    res.add_known(f, d["msg"])
                    continue
                res.violation("%s (step %d of behaviour %d, %s)" % (d["msg"], d["step"], d["beh"], mode),
                              {"engine": "txm", "behaviour": json.loads(behs[k]) if k < len(behs) else None,
                               "divergence": d})

        # 3. code -> spec: concurrent rounds on the real TxManager, linearized by TLC
        lin_traces = 0
        lin_cfg = dict(traces=300 if quick else 3000, rounds=8 if quick else 10, par=3 if quick else 4)
        lin_plans = [(3, 2, []), (2, 1, []), (3, 3, ["-retry", "-par", "1", "-rounds", "15"]),
                     (3, 4, ["-retry", "-par", "2", "-rounds", "20"])]
        if not quick:
            lin_plans.append((4, 3, []))
        for k, (nn, nt, extra) in enumerate(lin_plans):
            tp = os.path.join(scratch, "lin_%d.ndjson" % k)
            rc, o, err = run_harness(binary, ["txmc", "-seed", str(sd * 10 + k), "-traces", str(lin_cfg["traces"]),
                                              "-rounds", str(lin_cfg["rounds"]), "-par", str(lin_cfg["par"]),
                                              "-nodes", str(nn), "-txs", str(nt), "-out", tp] + extra, timeout=3000)
            if rc != 0:
                raise Infra("txmc harness failed: " + err[-2000:])
            trace = open(tp).read()
            n_traces = trace.count("\n")
            ok, counts = linearize(scratch, trace, nn, nt, "lin%d" % k)
            lin_traces += n_traces
            lines = trace.splitlines()
            if k == 0:
                res.sample({"concurrent_trace": json.loads(lines[0])})
            for t in range(1, n_traces + 1):
                if t in ok:
                    continue
                why = "recorded replies of concurrent calls admit no linearization allowed by TxManager.tla"
                if t in counts:
                    why = "processor/saver counts differ from the specification: " + counts[t]
                f = match_finding("C06", why)
                if f:
                    res.add_known(f, why)
                    continue
                res.violation(why + " (trace %d, %d nodes %d txs)" % (t, nn, nt),
                              {"engine": "txmc", "nodes": nn, "txs": nt, "trace": json.loads(lines[t - 1])})
            # binding self-test: a corrupted reply must be rejected
            if k == 0:
                bad = corrupt(lines)
                if bad:
                    ok2, _ = linearize(scratch, "\n".join(bad) + "\n", nn, nt, "linbad")
                    if len(ok2) == len(bad):
                        raise Infra("binding self-test failed: %d corrupted traces were all accepted by TxManagerLin" % len(bad))
                    res.notes.append("binding self-test: %d of %d traces with one flipped AddTxID reply rejected by TLC "
                                     "(a flip next to a concurrent retry tick can remain explainable)" % (
                                         len(bad) - len(ok2), len(bad)))

        # 3b. the same race with the window held open: the queue to the tx processor (1000 entries) is full while two
        #     peers deliver the same transaction
        rc, o, err = run_harness(binary, ["txmc", "-seed", str(sd), "-backlog", "8" if quick else "60"], timeout=3000)
        if rc != 0 or not o.strip():
            raise Infra("txmc backlog failed: " + err[-2000:])
        rb = json.loads(o)
        for m, cnt in rb["problems"].items():
            f = match_finding("C06", m)
            if f:
                res.add_known(f, m)
                continue
            res.violation("%s (%d of %d backlog scenarios)" % (m, cnt, rb["scenarios"]), {"engine": "txmc-backlog", "seed": sd})
        backlog_runs = rb["scenarios"]

        # 4. code -> spec at the level of connections: real BitcoinNodes of three verified peers sharing one real
        #    TxManager and NodeManager (inv / tx / request timeout / the manager's RequestTxs), judged by TLC
        tp = os.path.join(scratch, "txnet.ndjson")
        rc, o, err = run_harness(binary, ["txnet", "-seed", str(sd), "-traces", "150" if quick else "1500", "-steps",
                                          "12" if quick else "16", "-workers", "8", "-out", tp], timeout=3000)
        if rc != 0:
            raise Infra("txnet harness failed: " + err[-2000:])
        net = [json.loads(l) for l in open(tp) if l.strip()]
        skipped = [t for t in net if t.get("skipped")]
        if len(skipped) * 10 > len(net) or not net:
            raise Infra("txnet: %d of %d traces abandoned by the harness: %s" % (len(skipped), len(net), skipped[0]["skipped"] if skipped else ""))
        net = [t for t in net if not t.get("skipped")]
        ok, counts = linearize(scratch, "\n".join(json.dumps(t) for t in net) + "\n", 3, 2, "txnet")
        polls = sum(1 for t in net for r in t["rounds"] for c in r["calls"] if c["op"] == "poll")
        for i, t in enumerate(net, 1):
            why = None
            if t.get("problem"):
                why = "connections sharing one tx manager: " + t["problem"]
            elif i not in ok:
                why = ("connections sharing one tx manager: what the peers were asked for is not a behaviour of TxManager.tla"
                       + (" (processor/saver counts: %s)" % counts[i] if i in counts else ""))
            if why:
                f = match_finding("C06", why)
                if f:
                    res.add_known(f, why)
                    continue
                res.violation(why + " (trace %d)" % t["id"], {"engine": "txnet", "trace": t})
        lin_traces += len(net)
        net_stats = {"traces": len(net), "abandoned_by_harness": len(skipped), "retry_polls_observed": polls,
                     "calls": sum(len(t["rounds"]) for t in net)}
        res.sample({"connection_level_trace": [[c["op"], c["n"], c["t"], c["req"], c["txs"]] for r in net[0]["rounds"] for c in r["calls"]]})

    res.coverage.update({
        "connection_level": net_stats, "backlog_scenarios": backlog_runs,
        "states": states, "transitions": transitions, "traces_validated_against_impl": total_beh + lin_traces,
        "evaluations": total_beh + lin_traces, "distinct_nontrivial": total_beh,
        "rule": "spec->code: every call sequence (Announce/Deliver/Poll/Tick over the nodes and txs) up to the BFS depth, "
                "plus TLC-simulated deeper ones, each replayed on a fresh real TxManager with a counting processor/saver; "
                "code->spec: rounds of concurrent calls from goroutines, linearized by TLC; distinct = de-duplicated sequences",
        "exhaustive_cfgs": desc, "replay_runs": runs, "linearized_concurrent_traces": lin_traces,
        "exhaustive": False,
    })
    res.assumptions += ["one Tick = VerifAgeRequests(requestTimeout): wall-clock time between calls (microseconds) is far "
                        "below the one hour request timeout used by the harness",
                        "TxManager.Clean (expiry of old entries) is outside C06 and not part of this configuration"]
    return res.finish()


def linearize(scratch, trace, nn, nt, name):
    out, st = run_tlc(scratch, "TxManagerLin",
                      cfg({"Nodes": names("n", nn), "Txs": names("t", nt), "MaxTime": 1000}, spec="LSpec"),
                      files={"trace.ndjson": trace}, workers=4, timeout=1800, name=name)
    if st.get("error") or "Model checking completed" not in out:
        raise Infra("TxManagerLin did not complete: %s\n%s" % (st, out[-2000:]))
    ok = {t[1] for t in printed_tuples(out, "LINOK")}
    counts = {t[1]: t[2] for t in printed_tuples(out, "LINCOUNT")}
    return ok, counts


def corrupt(lines, limit=8):
    """Copies of recorded traces, each with the reply of one AddTxID call flipped."""
    bad = []
    for l in lines:
        t = json.loads(l)
        n = sum(1 for r in t["rounds"] for c in r["calls"] if c["op"] == "announce")
        for k in range(min(n, 2)):
            t2 = json.loads(l)
            i = 0
            for r in t2["rounds"]:
                for c in r["calls"]:
                    if c["op"] == "announce":
                        if i == k:
                            c["req"] = not c["req"]
                        i += 1
            bad.append(json.dumps(t2))
            if len(bad) >= limit:
                return bad
    return bad


def replay(path):
    with open(path) as fh:
        rp = json.load(fh)["replay"]
    with Scratch("C06r") as scratch:
        binary = build_harness(scratch)
        if rp.get("engine") == "txm" and rp.get("behaviour"):
            p = os.path.join(scratch, "b.jsonl")
            with open(p, "w") as fh:
                fh.write(json.dumps(rp["behaviour"]) + "\n")
            rc, o, err = run_harness(binary, ["txm", "-in", p, "-workers", "1"])
            r = json.loads(o)
            for d in r["divergences"]:
                print(d["msg"])
            if r["divergences"]:
                print("VIOLATION property=C06 replay=%s" % path)
                return 1
            print("not reproduced")
            return 0
        print("concurrent traces are not deterministic; re-run ./check C06")
        return 0
