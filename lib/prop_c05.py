"""C05: BlockSync.tla (rounds, restart protocol, reorgs; safety invariants and liveness under fairness) +
scenarios exported by TLC replayed on the real NodeManager / BlockManager / BlockDownloader with a scripted block
source + seed-chosen dynamic traces validated by TLC (BlockSyncTrace) + a stress of the trigger hand-over."""
import collections
import json
import os

from common import (Infra, NCPU, Result, Scratch, build_harness, cfg, match_finding, printed_tuples, run_harness, run_tlc,
                    seed, tlc_ok)

INV = ["NeverBelowStart", "NeverProcessed", "AscendingContiguous", "NoLostTrigger"]


def run(tier):
    res = Result("C05", tier, "model_checking")
    sd = seed()
    quick = tier == "quick"
    states = transitions = 0
    desc = []
    with Scratch("C05") as scratch:
        binary = build_harness(scratch)
        for (ml, st_, mid, mr) in ([(3, 1, 6, 1), (3, 2, 5, 1)] if quick else [(3, 1, 7, 2), (4, 2, 7, 1), (4, 0, 6, 1), (3, 3, 6, 1)]):
            out, st = run_tlc(scratch, "BlockSync", cfg({"MaxLen": ml, "Start": st_, "MaxId": mid, "MaxReorgs": mr}, spec="Spec",
                                                        invariants=INV, properties=["SyncCompletes"]), workers=NCPU,
                              timeout=3000, name="exh%d%d" % (ml, st_))
            tlc_ok(out, st, "BlockSync")
            states += st["distinct"]
            transitions += st["generated"]
            desc.append("chain<=%d start=%d ids<=%d reorgs<=%d: %d distinct / %d generated, SyncCompletes holds" % (
                ml, st_, mid, mr, st["distinct"], st["generated"]))

        # spec -> code: one round for every chain length x processed set x start height
        scen = 0
        for start in ([1, 2, 3] if quick else [1, 2, 3, 4, 5]):
            ml = 5 if quick else 7
            c = cfg({"MaxLen": ml, "Start": start, "MaxId": ml + 1, "MaxReorgs": 0}, init="Init", next_="Stutter",
                    invariants=["EmitScn"])
            out, st = run_tlc(scratch, "BlockSync", c, workers=1, timeout=1800, name="scn%d" % start)
            if st.get("error") or "Model checking completed" not in out:
                raise Infra("scenario export failed: %s\n%s" % (st, out[-2000:]))
            p = os.path.join(scratch, "scn_%d.txt" % start)
            with open(p, "w") as fh:
                fh.write(out)
            rc, o, err = run_harness(binary, ["bsy", "-mode", "rounds", "-in", p, "-workers", str(NCPU)], timeout=3000)
            if rc != 0 or not o.strip():
                raise Infra("bsy rounds failed: " + err[-2000:])
            r = json.loads(o)
            if r["scenarios"] == 0:
                raise Infra("no scenarios exported")
            scen += r["scenarios"]
            for s in (r.get("samples") or [])[:1]:
                res.sample({"round_scenario": json.loads(s)})
            for d in r["divergences"]:
                facts = {"block_processed_twice_within_100ms_by_concurrent_downloads": d["msg"].startswith("TWICE-WITHIN-100MS")}
                f = match_finding("C05", "not a behaviour of BlockSync.tla: " + d["msg"], facts)
                if f:
                    res.add_known(f, d["msg"])
                    continue
                res.violation("%s (scenario %s)" % (d["msg"], d["line"]), {"engine": "bsy-rounds", "scenario": json.loads(d["line"])})

        # code -> spec: dynamic traces
        tp = os.path.join(scratch, "bs.ndjson")
        ntr = 300 if quick else 4000
        norph = 3 if quick else 12  # orphaned pending blocks, and (every third) a block slower than the 10 s orphan check
        rc, o, err = run_harness(binary, ["bsy", "-mode", "traces", "-seed", str(sd), "-count", str(ntr), "-orphans", str(norph),
                                          "-workers", "12", "-out", tp], timeout=3000)
        if rc != 0:
            raise Infra("bsy traces failed: " + err[-2000:])
        # the same with two concurrent block requests (a slow first node, a second node asked meanwhile)
        tp2 = os.path.join(scratch, "bs2.ndjson")
        rc, o, err = run_harness(binary, ["bsy", "-mode", "traces", "-seed", str(sd + 1), "-count", str(ntr), "-conc", "2",
                                          "-workers", "12", "-out", tp2], timeout=3000)
        if rc != 0:
            raise Infra("bsy traces (2 concurrent) failed: " + err[-2000:])
        # the scenario of known finding F-C05-1: a second source delivers at the same instant as the first
        tp3 = os.path.join(scratch, "bs3.ndjson")
        rc, o, err = run_harness(binary, ["bsy", "-mode", "traces", "-seed", str(sd + 2), "-count", "80" if quick else "800", "-conc", "2",
                                          "-simul", "-workers", "12", "-out", tp3], timeout=3000)
        if rc != 0:
            raise Infra("bsy traces (simultaneous sources) failed: " + err[-2000:])
        groups = collections.defaultdict(list)
        for l in list(open(tp)) + list(open(tp2)):
            groups[json.loads(l)["start"]].append(l)
        for l in open(tp3):
            t = json.loads(l)
            t["simul"] = True
            groups[t["start"]].append(json.dumps(t) + "\n")
        ntraces = 0
        for start, ls in sorted(groups.items()):
            out, st = run_tlc(scratch, "BlockSyncTrace", cfg({"MaxLen": 6, "Start": start, "MaxId": 80, "MaxReorgs": 3},
                                                             spec="TSpec", invariants=["TraceInv"]),
                              files={"trace.ndjson": "".join(ls)}, workers=4, timeout=1800, name="tr%d" % start)
            if st.get("violation"):
                # an invariant of C05 fails on a state reached by a real trace
                res.violation("a trace of the real synchronisation reaches a state violating %s" % st["violation"],
                              {"engine": "bsy-traces", "tlc": out[-3000:]})
                continue
            if st.get("error") or "Model checking completed" not in out:
                raise Infra("BlockSyncTrace did not complete: %s\n%s" % (st, out[-2000:]))
            ok = {t[1] for t in printed_tuples(out, "TROK")}
            ntraces += len(ls)
            for i, l in enumerate(ls, 1):
                if i in ok:
                    continue
                t = json.loads(l)
                evs = [[e["ev"], e["h"], e["id"]] for e in t["events"]]
                why = "trace of the real block synchronisation is not a behaviour of BlockSync.tla"
                if t.get("note"):
                    why += " (" + t["note"] + ")"
                # two 'processed' events of one block: how far apart?
                seen = {}
                gap = None
                for e in t["events"]:
                    if e["ev"] == "processed":
                        key = (e["h"], e["id"])
                        if key in seen:
                            g = e.get("t", 0) - seen[key]
                            gap = g if gap is None else max(gap, g)
                        seen[key] = e.get("t", 0)
                # A source that is asked for a block while another source is still working on it delivers only if
                # nobody cancels it within 300 ms (harness bsy).  So a block processed twice within 100 ms is the race
                # of known finding F-C05-1 (the second download got its block before the cancellation of the first
                # completion could reach it); 300 ms or more apart it is a download that nobody cancelled.
                facts = {"block_processed_twice_within_100ms_by_concurrent_downloads": gap is not None and gap < 100000,
                         "max_gap_between_repeated_processing_us": gap, "simultaneous_scenario": bool(t.get("simul"))}
                f = match_finding("C05", why, facts)
                if f:
                    res.add_known(f, why)
                    continue
                res.violation("%s: n=%d start=%d processed=%s events=%s" % (why, t["n"], t["start"], t["processed"], json.dumps(evs)[:500]),
                              {"engine": "bsy-traces", "trace": t})
            if ntraces == len(ls):
                t0 = json.loads(ls[-1])
                res.sample({"trace": {"n": t0["n"], "start": t0["start"], "processed": t0["processed"],
                                      "events": [[e["ev"], e["h"], e["id"]] for e in t0["events"]]}})

        # the trigger hand-over under stress
        narr = 40000 if quick else 600000
        rc, o, err = run_harness(binary, ["bsy", "-mode", "stress", "-seed", str(sd), "-count", str(narr), "-workers", "8"], timeout=3000)
        if rc != 0 or not o.strip():
            raise Infra("bsy stress failed: " + err[-2000:])
        r = json.loads(o)
        for m in r["lost"]:
            f = match_finding("C05", m)
            if f:
                res.add_known(f, m)
            else:
                res.violation(m, {"engine": "bsy-stress", "seed": sd})
    res.coverage.update({
        "states": states, "transitions": transitions, "traces_validated_against_impl": scen + ntraces,
        "evaluations": scen + ntraces + r["arrivals"], "distinct_nontrivial": scen + ntraces,
        "rule": "(a) every initial state of BlockSync.tla (chain length x processed subset) for several start heights: the "
                "requests and processed blocks of one round must equal the spec's list; (b) seed-chosen dynamic scenarios (new "
                "headers and triggers while a round runs, source failures: no node, dropped mid-block, wrong block; reorg of a "
                "pending block) recorded and validated by TLC; (c) aligned header arrivals stressing the thread hand-over",
        "exhaustive_cfgs": desc, "round_scenarios": scen, "dynamic_traces": ntraces, "orphan_traces": norph,
        "stress_arrivals": r["arrivals"], "exhaustive": False,
    })
    res.assumptions += ["the scripted block source never serves height 0 (the real genesis block): start heights are >= 1",
                        "retries of one block by the block manager count as one request of the synchronisation",
                        "the orphan poll of the implementation is 10 s (hard-coded): orphan scenarios are few"]
    return res.finish()


def replay(path):
    print("C05 replays are scheduling dependent; re-run ./check C05")
    return 0
