#!/bin/sh
# Run once after a fresh restore, offline: checks the toolchain and warms the Go build cache.
set -e
cd "$(dirname "$0")"
export GOFLAGS=-mod=mod GOPROXY=off GOSUMDB=off GOTOOLCHAIN=local
command -v tlc >/dev/null || { echo "tlc not on PATH"; exit 1; }
command -v go >/dev/null || { echo "go not on PATH"; exit 1; }
command -v apalache-mc >/dev/null || echo "note: apalache-mc not on PATH (only the thorough tier of C13 uses it)"
cp /repo/go.sum harness/go.sum 2>/dev/null || true
tmp=$(mktemp -d)
(cd harness && go build -tags verif -o "$tmp/verifharness" .)
rm -rf "$tmp"
echo "setup ok"
