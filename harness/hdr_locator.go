package main

// C19: locator observation. The harness only projects: it maps the hashes of GetLocatorHashes to
// abstract (block, index) pairs, simulates the remote peer of the protocol (first locator hash on
// the peer's own chain, reply = the header after it), submits that header and records the verdict
// class. Whether the locator is well formed and whether the reply had to connect is decided by TLC
// (specs/HeaderLocatorTrace.tla) from these records.

import (
	"encoding/json"
	"fmt"
	"os"
	"sync"

	"github.com/tokenized/pkg/bitcoin"
	"github.com/tokenized/pkg/wire"
)

var (
	locOutMu   sync.Mutex
	locOutFile *os.File
)

type locEntry struct {
	B int `json:"b"`
	I int `json:"i"`
}

type locProbe struct {
	C       int    `json:"c"`       // peer's chain ends with the last header of block c
	Max     int    `json:"max"`     // locator maximum used
	Hit     int    `json:"hit"`     // 1-based index of the locator entry the peer matched, 0 = none
	Verdict string `json:"verdict"` // class of ProcessHeader for the first header of the reply, "" if the reply is empty
}

type locRecord struct {
	Beh      int                   `json:"beh"`
	Step     int                   `json:"step"`
	S        int                   `json:"S"`
	Parent   []int                 `json:"parent"`
	Work     []int                 `json:"work"`
	Acc      []int                 `json:"acc"`
	Tip      int                   `json:"tip"`
	FloorB   int                   `json:"floorB"`
	Unsure   []int                 `json:"unsure"`
	Locs     map[string][]locEntry `json:"locs"` // by maximum
	Maxes    []int                 `json:"maxes"`
	Branches int                   `json:"branches"` // branches held in memory when the locator was built
	Probes   []locProbe            `json:"probes"`
	Err      string                `json:"err"`
}

func (w *hdrWorld) locatorProbe(step int, op hdrOp) {
	S := w.o.S
	N := len(w.beh.Parent)
	rec := locRecord{Beh: w.behIdx, Step: step, S: S, Parent: w.beh.Parent, Work: w.beh.Work,
		Acc: op.Exp.Acc, Tip: op.Exp.Tip, FloorB: op.Exp.FloorB, Unsure: op.Exp.Unsure,
		Locs: map[string][]locEntry{}, Maxes: []int{1, 3, 10, 50}}
	if rec.Unsure == nil {
		rec.Unsure = []int{}
	}
	rec.Branches = w.repo.VerifBranchCount()
	raw := map[int][]bitcoin.Hash32{}
	for _, max := range rec.Maxes {
		w.cmp("C19")
		hashes, err := w.repo.GetLocatorHashes(w.ctx, max)
		if err != nil {
			rec.Err = err.Error()
			break
		}
		raw[max] = hashes
		var es []locEntry
		for _, h := range hashes {
			id, ok := w.idOf[h]
			if !ok {
				es = append(es, locEntry{-1, -1})
			} else {
				es = append(es, locEntry{id[0], id[1]})
			}
		}
		if es == nil {
			es = []locEntry{}
		}
		rec.Locs[fmt.Sprint(max)] = es
	}

	// The peer of the protocol, for every chain of the pool, with the locator the node actually
	// uses for header requests (max 3) - one submission per chain; a reply that connects changes
	// the repository, which is why the behaviour ends after the probe.
	if rec.Err == "" {
		max := 3
		loc := raw[max]
		for c := 0; c <= N; c++ {
			// peer chain: ancestors of c
			onChain := map[int]bool{0: true}
			path := []int{}
			for x := c; x != 0; x = w.parentOf(x) {
				onChain[x] = true
				path = append([]int{x}, path...)
			}
			hit := 0
			var reply *wire.BlockHeader
			for i, h := range loc {
				id, ok := w.idOf[h]
				if !ok || !onChain[id[0]] {
					continue
				}
				hit = i + 1
				// next header on the peer's chain after (id[0], id[1])
				if id[0] != 0 && id[1] < S-1 {
					reply = w.headersOf(id[0])[id[1]+1]
				} else {
					// first header of the child of id[0] on the path to c
					for k, x := range path {
						if id[0] == 0 && k == 0 {
							reply = w.headersOf(x)[0]
							break
						}
						if x == id[0] && k+1 < len(path) {
							reply = w.headersOf(path[k+1])[0]
							break
						}
					}
				}
				break
			}
			p := locProbe{C: c, Max: max, Hit: hit}
			if reply != nil {
				func() {
					defer func() {
						if r := recover(); r != nil {
							p.Verdict = fmt.Sprintf("PANIC %v", r)
						}
					}()
					p.Verdict = hdrClassify(w.repo.ProcessHeader(w.ctx, reply))
				}()
			}
			rec.Probes = append(rec.Probes, p)
		}
	}

	locOutMu.Lock()
	defer locOutMu.Unlock()
	if locOutFile == nil {
		path := os.Getenv("VERIF_LOCOUT")
		if path == "" {
			return
		}
		f, err := os.Create(path)
		if err != nil {
			fmt.Fprintln(os.Stderr, "locout:", err)
			return
		}
		locOutFile = f
	}
	bs, _ := json.Marshal(rec)
	locOutFile.Write(append(bs, '\n'))
}
