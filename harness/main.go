// Command verifharness binds the TLA+ specifications under /verif/specs to the real code of
// tokenized/bitcoin_reader: it replays TLC-generated behaviours on the real objects and records
// traces of the real objects for validation by TLC. It contains projections and comparisons, no
// re-implementation of the rules.
package main

import (
	"fmt"
	"os"
)

type subcommand func(args []string) int

var subcommands = map[string]subcommand{}

func main() {
	if len(os.Args) < 2 {
		fmt.Fprintln(os.Stderr, "usage: verifharness <subcommand> [flags]")
		os.Exit(2)
	}
	cmd, ok := subcommands[os.Args[1]]
	if !ok {
		fmt.Fprintln(os.Stderr, "unknown subcommand", os.Args[1])
		os.Exit(2)
	}
	os.Exit(cmd(os.Args[2:]))
}
