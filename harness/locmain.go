package main

// locmain: C19 on the real mainnet chain. The repository follows the fixture headers from 556000
// across the BSV/BCH split height; at every tip height the locator is taken for several maxima and
// recorded as true heights for validation by TLC (specs/LocatorLinear.tla).

import (
	"context"
	"encoding/json"
	"flag"
	"fmt"
	"math/big"
	"os"

	"github.com/tokenized/bitcoin_reader/headers"
	"github.com/tokenized/logger"
	"github.com/tokenized/pkg/bitcoin"
	"github.com/tokenized/pkg/storage"
)

func init() { subcommands["locmain"] = locmainMain }

type lmEntry struct {
	H    int    `json:"h"`
	Kind string `json:"kind"`
}

type lmRecord struct {
	Tip     int       `json:"tip"`
	Max     int       `json:"max"`
	NSplits int       `json:"nsplits"`
	Held    int       `json:"held"`
	Entries []lmEntry `json:"entries"`
}

func locmainMain(args []string) int {
	fs := flag.NewFlagSet("locmain", flag.ExitOnError)
	repoDir := fs.String("repo", "/repo", "repository working tree (fixtures)")
	out := fs.String("out", "", "output ndjson")
	from := fs.Int("from", 556700, "first tip height probed")
	to := fs.Int("to", 556900, "last tip height probed")
	fs.Parse(args)
	ctx := logger.ContextWithNoLogger(context.Background())
	fix, err := loadFixture(*repoDir, "headers_556000.txt")
	if err != nil {
		fmt.Fprintln(os.Stderr, err)
		return 2
	}
	f := os.Stdout
	if *out != "" {
		if f, err = os.Create(*out); err != nil {
			return 2
		}
		defer f.Close()
	}
	enc := json.NewEncoder(f)
	repo := headers.NewRepository(headers.DefaultConfig(), storage.NewMockStorage())
	repo.DisableDifficulty()
	work := &big.Int{}
	work.SetString("d167cf38dd7a9c078a40d5", 16)
	repo.MockLatest(ctx, fix[0], 556000, work)
	heightOf := map[bitcoin.Hash32]int{*fix[0].BlockHash(): 556000}
	splits, _ := repo.VerifSplits()
	splitAt := map[bitcoin.Hash32]int{}
	for _, s := range splits {
		splitAt[s.BeforeHash] = s.Height - 1
	}
	n := 0
	probe := func(tip int) bool {
		for _, max := range []int{1, 2, 3, 5, 10, 50} {
			hashes, err := repo.GetLocatorHashes(ctx, max)
			if err != nil {
				fmt.Fprintln(os.Stderr, "locator error:", err)
				return false
			}
			// Held: the lowest height whose header is in memory (the repository starts from a mocked latest header,
			// nothing below it is held)
			rec := lmRecord{Tip: tip, Max: max, NSplits: len(splits), Held: 556000, Entries: []lmEntry{}}
			for _, h := range hashes {
				if ht, ok := heightOf[h]; ok {
					rec.Entries = append(rec.Entries, lmEntry{H: ht, Kind: "chain"})
				} else if ht, ok := splitAt[h]; ok {
					rec.Entries = append(rec.Entries, lmEntry{H: ht, Kind: "split"})
				} else {
					rec.Entries = append(rec.Entries, lmEntry{H: -1, Kind: "unknown"})
				}
			}
			enc.Encode(rec)
			n++
		}
		return true
	}
	// only the tip is held
	if !probe(556000) {
		return 2
	}
	for i := 1; i < len(fix) && 556000+i <= *to; i++ {
		if err := repo.ProcessHeader(ctx, fix[i]); err != nil {
			fmt.Fprintln(os.Stderr, "real header refused:", err)
			return 2
		}
		heightOf[*fix[i].BlockHash()] = 556000 + i
		tip := 556000 + i
		if tip < *from && tip > 556004 {
			continue
		}
		if !probe(tip) {
			return 2
		}
	}
	fmt.Fprintf(os.Stderr, "%d locators\n", n)
	return 0
}
