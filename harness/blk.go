package main

// blk: every case TLC enumerates from BlockVerify.tla (committed block, relevant subset, streamed
// corruption, announced count, fault) is instantiated with real transactions and fed to a real
// BlockDownloader.HandleBlock; the recorded calls to the processor / block tx manager and the value
// on Complete are compared with the specification's (C04).

import (
	"context"
	"crypto/sha256"
	"encoding/json"
	"flag"
	"fmt"
	"os"
	"strings"
	"sync"
	"sync/atomic"
	"time"

	"github.com/pkg/errors"
	bitcoin_reader "github.com/tokenized/bitcoin_reader"
	"github.com/tokenized/logger"
	"github.com/tokenized/pkg/bitcoin"
	"github.com/tokenized/pkg/merkle_proof"
	"github.com/tokenized/pkg/wire"
)

func init() { subcommands["blk"] = blkMain }

type bvFault struct {
	Kind string `json:"kind"`
	At   int    `json:"at"`
}

type bvCall struct {
	Op  string `json:"op"`
	Tx  int    `json:"tx"`
	Txs []int  `json:"txs"`
}

type bvCase struct {
	Orig     []int    `json:"orig"`
	Relevant []int    `json:"relevant"`
	Sent     []int    `json:"sent"`
	Count    int      `json:"count"`
	Fault    bvFault  `json:"fault"`
	Calls    []bvCall `json:"calls"`
	Result   string   `json:"result"`
}

func dsha(b []byte) bitcoin.Hash32 {
	a := sha256.Sum256(b)
	c := sha256.Sum256(a[:])
	var h bitcoin.Hash32
	copy(h[:], c[:])
	return h
}

// merkleRoot is the harness's own computation of the Bitcoin merkle root (odd levels duplicate the
// last node), independent of the dependency used by the code under test.
func merkleRoot(ids []bitcoin.Hash32) bitcoin.Hash32 {
	level := append([]bitcoin.Hash32{}, ids...)
	for len(level) > 1 {
		if len(level)%2 == 1 {
			level = append(level, level[len(level)-1])
		}
		var next []bitcoin.Hash32
		for i := 0; i < len(level); i += 2 {
			next = append(next, dsha(append(append([]byte{}, level[i][:]...), level[i+1][:]...)))
		}
		level = next
	}
	return level[0]
}

var (
	bvTxOnce sync.Once
	bvTxs    []*wire.MsgTx
	bvIDs    map[bitcoin.Hash32]int
)

func bvTx(leaf int) *wire.MsgTx {
	bvTxOnce.Do(func() {
		bvIDs = map[bitcoin.Hash32]int{}
		for i := 0; i <= 16; i++ {
			tx := wire.NewMsgTx(1)
			tx.LockTime = uint32(5000 + i)
			tx.AddTxOut(wire.NewTxOut(uint64(1000+i), []byte{0x6a, byte(i)}))
			bvTxs = append(bvTxs, tx)
			bvIDs[*tx.TxHash()] = i
		}
	})
	return bvTxs[leaf]
}

func bvLeafOf(h bitcoin.Hash32) int {
	if l, ok := bvIDs[h]; ok {
		return l
	}
	return -1
}

type bvRecorder struct {
	mu       sync.Mutex
	c        *bvCase
	calls    []bvCall
	procN    int
	confN    int
	bd       *bitcoin_reader.BlockDownloader
	header   *wire.BlockHeader
	reqHash  bitcoin.Hash32
	problems []string
	ctx      context.Context
}

func (r *bvRecorder) ProcessTx(ctx context.Context, tx *wire.MsgTx) (bool, error) {
	r.mu.Lock()
	defer r.mu.Unlock()
	leaf := bvLeafOf(*tx.TxHash())
	r.calls = append(r.calls, bvCall{Op: "process", Tx: leaf})
	r.procN++
	if r.c.Fault.Kind == "procerr" && r.c.Fault.At == r.procN {
		return false, errors.New("processor failure (injected)")
	}
	if r.c.Fault.Kind == "cancel" && r.c.Fault.At == r.procN {
		r.bd.Cancel(r.ctx)
	}
	return inSet(r.c.Relevant, leaf), nil
}
func (r *bvRecorder) CancelTx(ctx context.Context, txid bitcoin.Hash32) error { return nil }
func (r *bvRecorder) AddTxConflict(ctx context.Context, txid, c bitcoin.Hash32) error {
	return nil
}
func (r *bvRecorder) UpdateTxChainDepth(ctx context.Context, txid bitcoin.Hash32, d uint32) error {
	return nil
}
func (r *bvRecorder) ConfirmTx(ctx context.Context, txid bitcoin.Hash32, height int,
	mp *merkle_proof.MerkleProof) error {
	r.mu.Lock()
	defer r.mu.Unlock()
	leaf := bvLeafOf(txid)
	r.calls = append(r.calls, bvCall{Op: "confirm", Tx: leaf})
	r.confN++
	// the proof must verify against the requested header for exactly this txid
	if mp == nil {
		r.problems = append(r.problems, fmt.Sprintf("confirmation of tx %d carries no proof", leaf))
	} else {
		if err := mp.Verify(); err != nil {
			r.problems = append(r.problems, fmt.Sprintf("proof of tx %d does not verify: %v", leaf, err))
		}
		if mp.TxID == nil || !mp.TxID.Equal(&txid) {
			r.problems = append(r.problems, fmt.Sprintf("proof of tx %d is for another txid", leaf))
		}
		if mp.BlockHeader == nil || !mp.BlockHeader.BlockHash().Equal(&r.reqHash) {
			r.problems = append(r.problems, fmt.Sprintf("proof of tx %d is not tied to the requested header", leaf))
		} else if root, err := mp.CalculateRoot(); err != nil || !root.Equal(&r.header.MerkleRoot) {
			r.problems = append(r.problems, fmt.Sprintf("proof path of tx %d does not lead to the header's merkle root", leaf))
		}
		if height != 777 {
			r.problems = append(r.problems, fmt.Sprintf("confirmation of tx %d carries height %d", leaf, height))
		}
	}
	if r.c.Fault.Kind == "confirmerr" && r.c.Fault.At == r.confN {
		return errors.New("confirm failure (injected)")
	}
	return nil
}
func (r *bvRecorder) ProcessCoinbaseTx(ctx context.Context, bh bitcoin.Hash32, tx *wire.MsgTx) error {
	r.mu.Lock()
	defer r.mu.Unlock()
	r.calls = append(r.calls, bvCall{Op: "coinbase", Tx: bvLeafOf(*tx.TxHash())})
	if !bh.Equal(&r.reqHash) {
		r.problems = append(r.problems, "coinbase processed for another block hash")
	}
	if r.c.Fault.Kind == "cbaseerr" {
		return errors.New("coinbase failure (injected)")
	}
	return nil
}
func (r *bvRecorder) FetchBlockTxIDs(ctx context.Context, bh bitcoin.Hash32) ([]bitcoin.Hash32, bool, error) {
	return nil, false, nil
}
func (r *bvRecorder) AppendBlockTxIDs(ctx context.Context, bh bitcoin.Hash32, txids []bitcoin.Hash32) error {
	r.mu.Lock()
	defer r.mu.Unlock()
	c := bvCall{Op: "append", Txs: []int{}}
	for _, id := range txids {
		c.Txs = append(c.Txs, bvLeafOf(id))
	}
	r.calls = append(r.calls, c)
	if !bh.Equal(&r.reqHash) {
		r.problems = append(r.problems, "txids recorded for another block hash")
	}
	if r.c.Fault.Kind == "storeerr" {
		return errors.New("store failure (injected)")
	}
	return nil
}

func bvClassify(err error) string {
	if err == nil {
		return "ok"
	}
	c := errors.Cause(err)
	switch {
	case c == bitcoin_reader.ErrWrongBlock:
		return "wrongblock"
	case c == merkle_proof.ErrWrongMerkleRoot:
		return "badroot"
	case c.Error() == "Block Download Cancelled":
		return "cancelled"
	}
	return "error"
}

func callsText(cs []bvCall) string {
	var sb strings.Builder
	for _, c := range cs {
		if c.Op == "append" {
			fmt.Fprintf(&sb, "append%v ", c.Txs)
		} else {
			fmt.Fprintf(&sb, "%s(%d) ", c.Op, c.Tx)
		}
	}
	return strings.TrimSpace(sb.String())
}

func bvRun(c *bvCase) string {
	ctx := logger.ContextWithNoLogger(context.Background())
	var ids []bitcoin.Hash32
	for _, l := range c.Orig {
		ids = append(ids, *bvTx(l).TxHash())
	}
	header := &wire.BlockHeader{Version: 1, Timestamp: 1600000000, Bits: 0x1d00ffff, Nonce: 7,
		MerkleRoot: merkleRoot(ids)}
	reqHash := *header.BlockHash()
	rec := &bvRecorder{c: c, header: header, reqHash: reqHash, ctx: ctx}
	bd := bitcoin_reader.NewBlockDownloader(rec, rec, reqHash, 777)
	rec.bd = bd

	given := header
	if c.Fault.Kind == "wrongheader" {
		h2 := *header
		h2.Nonce = 8
		given = &h2
	}
	arriving := c.Sent
	if c.Fault.Kind == "cut" {
		arriving = c.Sent[:c.Fault.At]
	}
	ch := make(chan *wire.MsgTx, len(arriving)+1)
	for _, l := range arriving {
		ch <- bvTx(l)
	}
	if c.Fault.Kind != "cancelend" {
		close(ch)
	}

	done := make(chan error, 1)
	var panicMsg string
	var returned int32
	go func() {
		defer func() {
			if r := recover(); r != nil {
				panicMsg = fmt.Sprint(r)
				atomic.StoreInt32(&returned, 1)
				done <- errors.New("panic")
			}
		}()
		err := bd.HandleBlock(ctx, given, uint64(c.Count), ch)
		atomic.StoreInt32(&returned, 1)
		done <- err
	}()
	if c.Fault.Kind == "cancelend" {
		// every transaction has been handed over and handled; the download is cancelled before the stream ends
		// the specification says how many transactions the handler hands to the processor before it stops taking
		// the stream (all of them, or fewer when it fails on one and only drains the rest): the cancel is issued
		// when that many have been handled.  An implementation that hands over fewer is waited for (3 s) and then
		// fails the comparison of the sink calls.
		target := 0
		for _, call := range c.Calls {
			if call.Op == "process" {
				target++
			}
		}
		for d := time.Now().Add(3 * time.Second); time.Now().Before(d); {
			rec.mu.Lock()
			n := rec.procN
			rec.mu.Unlock()
			if n >= target || atomic.LoadInt32(&returned) == 1 {
				break
			}
			time.Sleep(50 * time.Microsecond)
		}
		time.Sleep(300 * time.Microsecond) // past the check that follows the last ProcessTx
		bd.Cancel(ctx)
		close(ch)
	}
	select {
	case <-done:
	case <-time.After(5 * time.Second):
		return "HandleBlock did not return"
	}
	if panicMsg != "" {
		return "PANIC " + panicMsg
	}
	// Started must have been signalled, and exactly one value delivered on Complete
	select {
	case <-bd.Started:
	default:
		return "no Started signal"
	}
	var result string
	select {
	case err := <-bd.Complete:
		result = bvClassify(err)
	default:
		return "nothing delivered on Complete"
	}
	select {
	case err := <-bd.Complete:
		return fmt.Sprintf("a second value on Complete: %v", err)
	default:
	}
	// cancelend: the cancel is issued when every transaction has been handed to ProcessTx; whether the handler
	// notices it in the check after the last transaction or in the check before the coinbase is a matter of
	// timing - "cancelled" is as good as the failure the specification names, the sink calls must be the same
	if result != c.Result && !(c.Fault.Kind == "cancelend" && result == "cancelled") {
		return fmt.Sprintf("Complete delivered %q, spec says %q", result, c.Result)
	}
	if got, want := callsText(rec.calls), callsText(c.Calls); got != want {
		return fmt.Sprintf("sink calls [%s], spec says [%s]", got, want)
	}
	if len(rec.problems) > 0 {
		return rec.problems[0]
	}
	return ""
}

func blkMain(args []string) int {
	fs := flag.NewFlagSet("blk", flag.ExitOnError)
	in := fs.String("in", "", "TLC output with CASE lines")
	workers := fs.Int("workers", 16, "workers")
	sampleN := fs.Int("sample", 1, "run every n-th case only (offset by -seed)")
	seed := fs.Int64("seed", 0, "offset for -sample")
	fs.Parse(args)
	type job struct {
		idx  int
		line string
	}
	jobs := make(chan job, 256)
	var mu sync.Mutex
	n := 0
	byFault := map[string]int{}
	byResult := map[string]int{}
	sigs := map[string]int{}
	type div struct {
		Case  int                    `json:"case"`
		Msg   string                 `json:"msg"`
		Line  string                 `json:"line"`
		Facts map[string]interface{} `json:"facts"`
	}
	divs := []div{}
	var sample []string
	var wg sync.WaitGroup
	for i := 0; i < *workers; i++ {
		wg.Add(1)
		go func() {
			defer wg.Done()
			for j := range jobs {
				var c bvCase
				if err := json.Unmarshal([]byte(j.line), &c); err != nil {
					fmt.Fprintln(os.Stderr, "bad case", err)
					continue
				}
				msg := bvRun(&c)
				mu.Lock()
				n++
				byFault[c.Fault.Kind]++
				byResult[c.Result]++
				if len(sample) < 3 && c.Result == "ok" && len(c.Sent) >= 3 && j.idx%97 == 3 {
					sample = append(sample, j.line)
				}
				if msg != "" {
					sigs[denum(msg)]++
					if len(divs) < 60 {
						// shape facts for the findings matcher
						dupRel := false
						for a := range c.Sent {
							for b := range c.Sent {
								if a != b && c.Sent[a] == c.Sent[b] && inSet(c.Relevant, c.Sent[a]) {
									dupRel = true
								}
							}
						}
						divs = append(divs, div{Case: j.idx, Msg: msg, Line: j.line,
							Facts: map[string]interface{}{"relevant_tx_streamed_twice": dupRel, "fault": c.Fault.Kind}})
					}
				}
				mu.Unlock()
			}
		}()
	}
	err := behaviourLines(*in, "CASE", func(idx int, line string) {
		if *sampleN > 1 && (int64(idx)+*seed)%int64(*sampleN) != 0 {
			return
		}
		jobs <- job{idx, line}
	})
	close(jobs)
	wg.Wait()
	if err != nil {
		fmt.Fprintln(os.Stderr, err)
		return 2
	}
	json.NewEncoder(os.Stdout).Encode(map[string]interface{}{"cases": n, "by_fault": byFault, "by_result": byResult,
		"signatures": sigs, "divergences": divs, "samples": sample})
	return 0
}
