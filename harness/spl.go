package main

// spl: SplitGuard.tla behaviours (offers around the BSV/BCH split height in any order) replayed on
// a real mainnet headers.Repository built on the real chain from the repository's fixtures, with
// split protection on (C03, header side).

import (
	"context"
	"encoding/json"
	"flag"
	"fmt"
	"math/big"
	"os"
	"path/filepath"

	"github.com/tokenized/bitcoin_reader/headers"
	"github.com/tokenized/logger"
	"github.com/tokenized/pkg/bitcoin"
	"github.com/tokenized/pkg/storage"
	"github.com/tokenized/pkg/wire"
)

func init() { subcommands["spl"] = splMain }

const splitHeight = 556767

type splOffer struct {
	B       string `json:"b"`
	Verdict string `json:"verdict"`
}

type splBeh struct {
	Offers []splOffer `json:"offers"`
}

func loadFixture(repoDir, name string) ([]*wire.BlockHeader, error) {
	f, err := os.Open(filepath.Join(repoDir, "headers", "test_fixtures", name))
	if err != nil {
		return nil, err
	}
	defer f.Close()
	var hs []*wire.BlockHeader
	if err := json.NewDecoder(f).Decode(&hs); err != nil {
		return nil, err
	}
	return hs, nil
}

type splWorld struct {
	ctx  context.Context
	fix  []*wire.BlockHeader
	pool map[string]*wire.BlockHeader
	// names that stand for a run of headers offered in one step
	multi map[string][]*wire.BlockHeader
}

func fab(prev bitcoin.Hash32, nonce uint32) *wire.BlockHeader {
	h := &wire.BlockHeader{Version: 0x20000000, PrevBlock: prev, Timestamp: 1542300000 + nonce, Bits: 0x1d00ffff, Nonce: nonce}
	h.MerkleRoot[0] = byte(nonce)
	return h
}

func newSplWorld(fix []*wire.BlockHeader) *splWorld {
	w := &splWorld{ctx: logger.ContextWithNoLogger(context.Background()), fix: fix, pool: map[string]*wire.BlockHeader{}, multi: map[string][]*wire.BlockHeader{}}
	at := func(h int) *wire.BlockHeader { return fix[h-556000] }
	w.pool["m3"] = at(splitHeight - 3)
	w.pool["m2"] = at(splitHeight - 2)
	w.pool["m1"] = at(splitHeight - 1)
	w.pool["bsv"] = at(splitHeight)
	w.pool["m_1"] = at(splitHeight + 1)
	w.pool["m_2"] = at(splitHeight + 2)
	w.pool["bch"] = bchSplitHeader
	w.pool["x0"] = fab(*at(splitHeight - 1).BlockHash(), 101)
	w.pool["f1"] = fab(*at(splitHeight - 2).BlockHash(), 102)
	w.pool["f1x"] = fab(*w.pool["f1"].BlockHash(), 103)
	w.pool["g3"] = fab(*at(splitHeight - 4).BlockHash(), 112)
	w.pool["g2"] = fab(*w.pool["g3"].BlockHash(), 104)
	w.pool["g1"] = fab(*w.pool["g2"].BlockHash(), 105)
	w.pool["g0"] = fab(*w.pool["g1"].BlockHash(), 106)
	// more work than the real headers around it: this fork of a fork becomes the best chain
	w.pool["h2"] = fab(*w.pool["g3"].BlockHash(), 110)
	w.pool["h2"].Bits = 0x1700ffff
	w.pool["h1"] = fab(*w.pool["h2"].BlockHash(), 113)
	w.pool["h1"].Bits = 0x1700ffff
	w.pool["h0"] = fab(*w.pool["h1"].BlockHash(), 111)
	// "adv": the real headers 556770 .. 556919, offered in one step
	for h := splitHeight + 3; h < splitHeight+153; h++ {
		w.multi["adv"] = append(w.multi["adv"], at(h))
	}
	w.pool["adv"] = at(splitHeight + 3)
	w.pool["late"] = fab(*at(splitHeight + 1).BlockHash(), 107)
	var nowhere bitcoin.Hash32
	nowhere[3] = 0x77
	w.pool["orph"] = fab(nowhere, 108)
	g := headers.NewRepository(headers.DefaultConfig(), storage.NewMockStorage())
	g.InitializeWithGenesis()
	w.pool["gen1"] = fab(g.LastHash(), 109)
	return w
}

// newRepo returns a mainnet repository holding the real chain up to split height - 4.
func (w *splWorld) newRepo(real bool) (*headers.Repository, error) {
	repo := headers.NewRepository(headers.DefaultConfig(), storage.NewMockStorage())
	repo.DisableDifficulty()
	work := &big.Int{}
	work.SetString("d167cf38dd7a9c078a40d5", 16)
	if !real {
		if err := repo.VerifMockPruned(w.ctx, w.fix[splitHeight-4-556000], splitHeight-4, work); err != nil {
			return nil, err
		}
		return repo, nil
	}
	// the real chain from 556000 with the difficulty check on as soon as there is enough history
	if err := repo.VerifMockPruned(w.ctx, w.fix[0], 556000, work); err != nil {
		return nil, err
	}
	for i := 1; i <= splitHeight-4-556000; i++ {
		if i == 151 {
			repo.EnableDifficulty()
		}
		if err := repo.ProcessHeader(w.ctx, w.fix[i]); err != nil {
			return nil, fmt.Errorf("real header %d refused: %v", 556000+i, err)
		}
	}
	return repo, nil
}

func splMain(args []string) int {
	fs := flag.NewFlagSet("spl", flag.ExitOnError)
	in := fs.String("in", "", "behaviours")
	repoDir := fs.String("repo", "/repo", "repository working tree (fixtures)")
	fs.Parse(args)
	fix, err := loadFixture(*repoDir, "headers_556000.txt")
	if err != nil {
		fmt.Fprintln(os.Stderr, err)
		return 2
	}
	w := newSplWorld(fix)
	if !w.pool["bsv"].BlockHash().Equal(headers.MainNetRequiredHeader.BlockHash()) {
		fmt.Fprintln(os.Stderr, "fixture at the split height is not the BSV split header")
		return 2
	}
	type div struct {
		Beh  int    `json:"beh"`
		Step int    `json:"step"`
		Mode string `json:"mode"`
		Msg  string `json:"msg"`
		Line string `json:"line"`
	}
	divs := []div{}
	n := map[string]int{}
	offers := 0
	verdicts := map[string]int{}
	fabricated := map[string]bool{"orph": true, "gen1": true, "x0": true, "f1": true, "f1x": true, "g2": true, "g1": true, "g0": true, "late": true, "g3": true, "h2": true, "h1": true, "h0": true}
	var sample []string

	// the split table the code uses, compared with the specification's constants
	probe := headers.NewRepository(headers.DefaultConfig(), storage.NewMockStorage())
	splits, required := probe.VerifSplits()
	tableMsg := ""
	if required == nil || required.Height != splitHeight || !required.AfterHash.Equal(w.pool["bsv"].BlockHash()) ||
		!required.BeforeHash.Equal(w.pool["m1"].BlockHash()) {
		tableMsg = "required split is not the BSV split header at 556767 on top of the real 556766"
	}
	foundBCH, foundBTC := false, false
	for _, s := range splits {
		if s.Name == headers.SplitNameBCH && s.Height == splitHeight && s.AfterHash.Equal(bchSplitHeader.BlockHash()) {
			foundBCH = true
		}
		if s.Name == headers.SplitNameBTC && s.Height == 478559 &&
			s.AfterHash.String() == "00000000000000000019f112ec0a9982926f1258cdcc558dd7c3b7e5dc7fa148" {
			foundBTC = true
		}
	}
	if !foundBCH || !foundBTC {
		tableMsg = fmt.Sprintf("split table incomplete (BCH %v, BTC %v)", foundBCH, foundBTC)
	}
	if tableMsg != "" {
		divs = append(divs, div{Beh: -1, Msg: tableMsg})
	}

	err = behaviourLines(*in, "BEH", func(idx int, line string) {
		var beh splBeh
		if json.Unmarshal([]byte(line), &beh) != nil {
			return
		}
		if len(sample) < 2 && idx%211 == 3 {
			sample = append(sample, line)
		}
		for _, mode := range []string{"mock", "real"} {
			if mode == "real" {
				skip := idx%20 != 0 // the real-chain repository costs ~770 headers with difficulty on: sampled
				for _, o := range beh.Offers {
					if fabricated[o.B] {
						skip = true
					}
				}
				if skip {
					continue
				}
			}
			repo, err := w.newRepo(mode == "real")
			if err != nil {
				divs = append(divs, div{Beh: idx, Mode: mode, Msg: "harness: " + err.Error()})
				return
			}
			n[mode]++
			for step, o := range beh.Offers {
				offers++
				verdicts[o.Verdict]++
				if o.B == "clean" {
					if err := repo.VerifClean(w.ctx, 1000000); err != nil {
						divs = append(divs, div{Beh: idx, Step: step, Mode: mode, Line: line, Msg: "clean failed: " + err.Error()})
						break
					}
					continue
				}
				var perr error
				if hs, many := w.multi[o.B]; many {
					for _, h := range hs {
						if perr = repo.ProcessHeader(w.ctx, h); perr != nil {
							break
						}
					}
				} else {
					perr = repo.ProcessHeader(w.ctx, w.pool[o.B])
				}
				got := hdrClassify(perr)
				if got != wantClass(o.Verdict) {
					if len(divs) < 50 {
						divs = append(divs, div{Beh: idx, Step: step, Mode: mode, Line: line,
							Msg: fmt.Sprintf("offer of %s answered %s, spec says %s", o.B, got, o.Verdict)})
					}
					break
				}
				// whatever is reported at the split height must be the BSV split header
				if repo.Height() >= splitHeight {
					if h, err := repo.Hash(w.ctx, splitHeight); err != nil || !h.Equal(w.pool["bsv"].BlockHash()) {
						divs = append(divs, div{Beh: idx, Step: step, Mode: mode, Line: line,
							Msg: "the header reported at height 556767 is not the BSV split header"})
						break
					}
				}
				for _, name := range []string{"bch", "x0", "f1x", "g0", "h0"} {
					if repo.HashHeight(*w.pool[name].BlockHash()) != -1 {
						divs = append(divs, div{Beh: idx, Step: step, Mode: mode, Line: line,
							Msg: fmt.Sprintf("%s is known to the repository at the split height", name)})
						break
					}
				}
			}
		}
	})
	if err != nil {
		fmt.Fprintln(os.Stderr, err)
		return 2
	}
	json.NewEncoder(os.Stdout).Encode(map[string]interface{}{"behaviours": n, "offers": offers, "verdicts": verdicts,
		"divergences": divs, "samples": sample})
	return 0
}
