package main

// deafpeer: the schedule TLC produces for OutChannel.tla with the wrong closing order - outgoing queue full, a
// goroutine waiting for room in it (with the channel mutex held), then Stop - played against a real BitcoinNode by a
// peer that never reads what the node sends.  The code's order (OutChannel Order = "conn") completes the Stop
// whatever the peer does: a verify-only node is disconnected once it has verified, and Run returns on hang-up.

import (
	"context"
	"encoding/json"
	"flag"
	"fmt"
	"net"
	"os"
	"time"

	"github.com/tokenized/bitcoin_reader"
	"github.com/tokenized/bitcoin_reader/headers"
	"github.com/tokenized/logger"
	"github.com/tokenized/pkg/storage"
	"github.com/tokenized/pkg/wire"
)

func init() { subcommands["deafpeer"] = deafMain }

type deafOut struct {
	Pings      int    `json:"pings"`
	VerifyOnly bool   `json:"verifyonly"`
	Handshake  bool   `json:"handshake_complete"`
	Verified   bool   `json:"verified"`
	Msg        string `json:"msg,omitempty"` // divergence
	Prop       string `json:"prop,omitempty"`
}

// deafScenario: pings (answers pile up in the outgoing queue: nobody reads), version, verack, the required header.
func deafScenario(pings int, verifyOnly bool, patience time.Duration) deafOut {
	res := deafOut{Pings: pings, VerifyOnly: verifyOnly}
	ctx := logger.ContextWithNoLogger(context.Background())
	repo := headers.NewRepository(headers.DefaultConfig(), storage.NewMockStorage())
	repo.DisableDifficulty()
	repo.InitializeWithGenesis()
	peers := bitcoin_reader.NewPeerRepository(storage.NewMockStorage(), "")
	node := bitcoin_reader.NewBitcoinNode("127.0.0.1:8333", "/verif:1/", bitcoin_reader.DefaultConfig(), repo, peers)
	if verifyOnly {
		node.SetVerifyOnly()
	}
	a, b := net.Pipe()
	intr := make(chan interface{})
	runDone := make(chan error, 1)
	go func() { runDone <- node.VerifRunWithConn(ctx, a, intr) }()
	send := func(data []byte) error {
		b.SetWriteDeadline(time.Now().Add(patience))
		_, err := b.Write(data)
		return err
	}
	finish := func() {
		b.Close()
		select {
		case <-runDone:
		case <-time.After(5 * time.Second):
			if res.Msg == "" {
				res.Prop = "C15"
				res.Msg = fmt.Sprintf("Run did not return within 5 s after the peer hung up (peer that never reads, %d pings queued)", pings)
			}
		}
		close(intr)
	}
	defer finish()

	for i := 0; i < pings; i++ {
		// net.Pipe: the write returns once the node has read the message, and the node reads a message only
		// after the previous handler has returned - so ping i-1 has been answered (queued) by now
		if err := send(wireMessage(wire.NewMsgPing(uint64(i)))); err != nil {
			if ne, ok := err.(net.Error); ok && ne.Timeout() && i >= 900 {
				return res // the read loop already waits for room in the queue: no handshake possible
			}
			res.Msg = fmt.Sprintf("harness: ping %d not taken by the node: %v", i, err)
			return res
		}
	}
	time.Sleep(20 * time.Millisecond)
	me := wire.NewNetAddressIPPort(net.IPv4(127, 0, 0, 1), 8333, 0)
	v := wire.NewMsgVersion(me, me, 77, 100)
	v.UserAgent = "/deaf:1/"
	if err := send(wireMessage(v)); err != nil {
		if ne, ok := err.(net.Error); ok && ne.Timeout() {
			return res // as above
		}
		res.Msg = "harness: version not taken: " + err.Error()
		return res
	}
	time.Sleep(50 * time.Millisecond) // the handshake goroutine queues its verack
	if err := send(wireMessage(&wire.MsgVerAck{})); err != nil {
		if ne, ok := err.(net.Error); ok && ne.Timeout() {
			return res
		}
		res.Msg = "harness: verack not taken: " + err.Error()
		return res
	}
	for t := time.Now(); !node.HandshakeIsComplete() && time.Since(t) < patience; {
		time.Sleep(time.Millisecond)
	}
	res.Handshake = node.HandshakeIsComplete()
	if !res.Handshake {
		// the queue was full one message too early: the handshake goroutine waits for room for its verack and
		// never sees the peer's; no verification, nothing to decide
		return res
	}
	time.Sleep(100 * time.Millisecond)
	if err := send(rawMessage("headers", headersPayload([]*wire.BlockHeader{headers.MainNetRequiredHeader}, 0))); err != nil {
		if ne, ok := err.(net.Error); ok && ne.Timeout() {
			// the read loop itself waits for room in the queue: not the state this scenario is about
			return res
		}
		res.Msg = "harness: headers not taken: " + err.Error()
		return res
	}
	for t := time.Now(); !node.Verified() && time.Since(t) < patience; {
		time.Sleep(time.Millisecond)
	}
	res.Verified = node.Verified()
	if !res.Verified {
		return res
	}
	if verifyOnly {
		// "disconnects as soon as verification succeeds": the peer's next write fails at once on a closed
		// connection, and is never taken (times out) by a node that is still connected but stuck
		deadline := time.Now().Add(patience)
		for {
			err := send(wireMessage(wire.NewMsgPing(1)))
			if err != nil {
				if ne, ok := err.(net.Error); ok && ne.Timeout() {
					res.Prop = "C13"
					res.Msg = fmt.Sprintf("verify-only node is still connected %v after verification succeeded (peer that never reads, %d pings queued before the handshake)", patience, pings)
				}
				return res
			}
			if time.Now().After(deadline) {
				res.Prop = "C13"
				res.Msg = fmt.Sprintf("verify-only node still takes messages %v after verification succeeded (peer that never reads, %d pings)", patience, pings)
				return res
			}
			time.Sleep(10 * time.Millisecond)
		}
	}
	return res
}

func deafMain(args []string) int {
	fs := flag.NewFlagSet("deafpeer", flag.ExitOnError)
	capacity := fs.Int("cap", 1000, "capacity of the node's outgoing queue")
	fs.Parse(args)
	var outs []deafOut
	// the node itself queues version and ping at the start (one of them is taken by the sender goroutine and
	// sits in the write), then one pong per ping, then verack, protoconf and the verification request: the
	// numbers of pings around capacity-2 are the ones where one of the handshake's messages finds the queue full
	for _, vo := range []bool{true, false} {
		for d := -5; d <= 0; d++ {
			o := deafScenario(*capacity+d, vo, 2*time.Second)
			if o.Msg != "" && o.Prop != "" {
				// once more, patiently, before it counts
				o2 := deafScenario(*capacity+d, vo, 8*time.Second)
				if o2.Msg == "" || o2.Prop == "" {
					o = o2
				}
			}
			outs = append(outs, o)
		}
	}
	json.NewEncoder(os.Stdout).Encode(map[string]interface{}{"scenarios": outs})
	return 0
}
