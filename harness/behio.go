package main

import (
	"bufio"
	"crypto/sha1"
	"io"
	"os"
	"strconv"
	"strings"
)

// behaviourLines reads behaviours either as plain JSON lines or as raw TLC output, where a
// behaviour is printed as  <<"TAG", "escaped json">> ; other TLC lines are skipped. Duplicates (TLC
// evaluates the emitting invariant for every generated successor) are dropped.
func behaviourLines(path string, tag string, fn func(idx int, line string)) error {
	var r io.Reader = os.Stdin
	if path != "" {
		f, err := os.Open(path)
		if err != nil {
			return err
		}
		defer f.Close()
		r = f
	}
	sc := bufio.NewScanner(r)
	sc.Buffer(make([]byte, 1<<20), 1<<27)
	prefix := "<<\"" + tag + "\", "
	seen := map[[20]byte]bool{}
	idx := 0
	for sc.Scan() {
		line := sc.Text()
		if strings.HasPrefix(line, prefix) {
			body := strings.TrimSuffix(strings.TrimSpace(line[len(prefix):]), ">>")
			s, err := strconv.Unquote(body)
			if err != nil {
				continue
			}
			line = s
		} else if !strings.HasPrefix(line, "{") {
			continue
		}
		h := sha1.Sum([]byte(line))
		if seen[h] {
			continue
		}
		seen[h] = true
		fn(idx, line)
		idx++
	}
	return sc.Err()
}
