package main

// nsel: replay of NodeSelectGen behaviours on the real NodeManager with real BitcoinNodes, each talking
// to a scripted peer over a pipe.  Connections are brought into the states the specification names
// (handshake / verification incomplete in one of three sub-states, ready, busy, stopped), then
// RequestHeaders / RequestBlock are called on the manager and the scripted peers report which of them
// received the getheaders / getdata.
//
// C13 ("never selected to serve header, transaction or block requests"): a request must never reach a
// peer that has not completed handshake and verification.  That is what is judged.  Which of several
// qualifying connections is asked is the implementation's business (round robin today); agreement
// with the specification's deterministic walk is counted, not judged.

import (
	"context"
	"encoding/json"
	"flag"
	"fmt"
	"os"
	"sync"
	"time"

	bitcoin_reader "github.com/tokenized/bitcoin_reader"
	"github.com/tokenized/bitcoin_reader/headers"
	"github.com/tokenized/logger"
	"github.com/tokenized/pkg/bitcoin"
	"github.com/tokenized/pkg/storage"
	"github.com/tokenized/pkg/wire"
)

func init() { subcommands["nsel"] = nselMain }

type nselOp struct {
	Op   string            `json:"op"`
	Node string            `json:"node"`
	St   map[string]string `json:"st"`
	Has  map[string]bool   `json:"has"`
	List []string          `json:"list"`
	Off  int               `json:"off"`
}

type nselBeh struct {
	Ops []nselOp `json:"ops"`
}

type nselDiv struct {
	Beh  int    `json:"beh"`
	Step int    `json:"step"`
	Msg  string `json:"msg"`
	Line string `json:"line"`
}

type nselStats struct {
	sync.Mutex
	Behaviours  int            `json:"behaviours"`
	Steps       int            `json:"steps"`
	Requests    int            `json:"requests"`
	Ops         map[string]int `json:"ops"`
	Selected    int            `json:"requests_that_selected_a_connection"`
	NoneChosen  int            `json:"requests_with_no_connection_selected"`
	AgreeWalk   int            `json:"selection_equals_spec_walk"`
	DifferWalk  int            `json:"selection_differs_from_spec_walk"`
	HandStates  map[string]int `json:"unverified_substates"`
	HarnessSkip int            `json:"behaviours_abandoned_by_harness"`
}

type nselWorld struct {
	ctx   context.Context
	nm    *bitcoin_reader.NodeManager
	sess  map[string]*session
	b1    *wire.BlockHeader
	b1h   bitcoin.Hash32
	seed  int64
	stats *nselStats
}

func nselRun(idx int, line string, seed int64, stats *nselStats) (divs []nselDiv, skipped string) {
	var beh nselBeh
	if err := json.Unmarshal([]byte(line), &beh); err != nil {
		return nil, "bad behaviour json"
	}
	w := &nselWorld{ctx: logger.ContextWithNoLogger(context.Background()), sess: map[string]*session{}, seed: seed, stats: stats}
	hcfg := headers.DefaultConfig()
	repo := headers.NewRepository(hcfg, storage.NewMockStorage())
	repo.DisableDifficulty()
	repo.DisableSplitProtection()
	repo.InitializeWithGenesis()
	gen := repo.LastHash()
	w.b1 = &wire.BlockHeader{Version: 1, PrevBlock: gen, Timestamp: 1600000001, Bits: 0x1d00ffff, Nonce: 7}
	w.b1.MerkleRoot[0] = 0x51
	w.b1h = *w.b1.BlockHash()
	if err := repo.ProcessHeader(w.ctx, w.b1); err != nil {
		return nil, "harness: " + err.Error()
	}
	cfg := bitcoin_reader.DefaultConfig()
	w.nm = bitcoin_reader.NewNodeManager("/verif:1/", cfg, repo, bitcoin_reader.NewPeerRepository(storage.NewMockStorage(), ""))
	defer func() {
		for _, s := range w.sess {
			s.close()
		}
	}()
	fail := func(step int, msg string) {
		divs = append(divs, nselDiv{Beh: idx, Step: step, Msg: msg, Line: line})
	}
	verified := map[string]bool{}
	stopped := map[string]bool{}
	sub := map[string]string{}
	var b2 bitcoin.Hash32
	b2[0] = 0xb2

	pingStep := func(s *session, payload []byte) bool {
		if payload != nil && !s.write(payload, 10*time.Second) {
			return false
		}
		n := s.rng.Uint64()
		if !s.write(wireMessage(wire.NewMsgPing(n)), 10*time.Second) {
			return false
		}
		out := map[string]int{}
		pong, _ := s.collect(n, 10*time.Second, out)
		return pong
	}

	for step, op := range beh.Ops {
		stats.Lock()
		stats.Steps++
		stats.Ops[op.Op]++
		stats.Unlock()
		switch op.Op {
		case "connect":
			s := newSession(&sessBeh{}, seed+int64(idx)*131+int64(step), false)
			w.sess[op.Node] = s
			// wait for the node's own version message
			init := map[string]int{}
			for d := time.Now().Add(10 * time.Second); init["version"] == 0 && time.Now().Before(d); {
				s.collect(0, 10*time.Millisecond, init)
			}
			if init["version"] == 0 {
				return divs, "harness: node did not send its version"
			}
			// an unverified connection in one of three sub-states
			k := int((seed + int64(idx)*7 + int64(step)) % 3)
			if k < 0 {
				k = -k
			}
			switch k {
			case 0:
				sub[op.Node] = "nothing sent"
			case 1:
				sub[op.Node] = "version sent"
				s.write(s.build("version"), 10*time.Second)
			case 2:
				sub[op.Node] = "version and verack sent, verification request unanswered"
				s.write(s.build("version"), 10*time.Second)
				s.write(s.build("verack"), 10*time.Second)
				// the node now asks its own verification question (a getheaders): wait for it, so that it is
				// not taken for a request of the manager later
				seen := map[string]int{}
				for d := time.Now().Add(10 * time.Second); seen["getheaders"] == 0 && time.Now().Before(d); {
					s.collect(0, 10*time.Millisecond, seen)
				}
				if seen["getheaders"] == 0 {
					return divs, "harness: the node did not send its verification request"
				}
			}
			stats.Lock()
			stats.HandStates[sub[op.Node]]++
			stats.Unlock()
			time.Sleep(time.Millisecond)
			w.nm.VerifAddNode(s.node)
		case "verify":
			s := w.sess[op.Node]
			switch sub[op.Node] {
			case "nothing sent":
				if !pingStep(s, s.build("version")) || !pingStep(s, s.build("verack")) {
					return divs, "harness: handshake failed"
				}
			case "version sent":
				if !pingStep(s, s.build("verack")) {
					return divs, "harness: handshake failed"
				}
			}
			if !s.awaitCmd("getheaders", 1, 10*time.Second) {
				return divs, "harness: the node did not ask its verification question"
			}
			ok := pingStep(s, s.build("hdrBSV"))
			for d := time.Now().Add(5 * time.Second); ok && !s.node.IsReady() && time.Now().Before(d); {
				time.Sleep(time.Millisecond)
			}
			if !ok || !s.node.IsReady() {
				return divs, "harness: node not ready after verification"
			}
			verified[op.Node] = true
			if op.Has[op.Node] {
				// the peer announces the block that will be requested
				if !pingStep(s, rawMessage("headers", headersPayload([]*wire.BlockHeader{w.b1}, 0))) {
					return divs, "harness: headers not taken"
				}
				if !s.node.HasBlock(w.ctx, w.b1h, 1) {
					return divs, "harness: the node does not report the announced block"
				}
			}
		case "stop":
			s := w.sess[op.Node]
			s.conn.Close()
			for d := time.Now().Add(10 * time.Second); !s.node.IsStopped() && time.Now().Before(d); {
				time.Sleep(time.Millisecond)
			}
			if !s.node.IsStopped() {
				return divs, "harness: node did not stop after its connection closed"
			}
			stopped[op.Node] = true
		case "busy":
			s := w.sess[op.Node]
			if err := s.node.RequestBlock(w.ctx, b2, func(context.Context, *wire.BlockHeader, uint64, <-chan *wire.MsgTx) error { return nil },
				func(context.Context) {}); err != nil {
				return divs, "harness: RequestBlock on a ready node: " + err.Error()
			}
			if !pingStep(s, nil) {
				return divs, "harness: busy node does not answer"
			}
		case "reqheaders", "reqblock":
			stats.Lock()
			stats.Requests++
			stats.Unlock()
			// drain what the connections sent on their own account (version, verification requests)
			for name, s := range w.sess {
				if stopped[name] {
					continue
				}
				s.collect(0, 2*time.Millisecond, map[string]int{})
			}
			want := "getheaders"
			if op.Op == "reqheaders" {
				if err := w.nm.RequestHeaders(w.ctx); err != nil {
					fail(step, "RequestHeaders returned an error: "+err.Error())
				}
			} else {
				want = "getdata"
				_, err := w.nm.RequestBlock(w.ctx, w.b1h, func(context.Context, *wire.BlockHeader, uint64, <-chan *wire.MsgTx) error { return nil },
					func(context.Context) {})
				if err != nil && err != bitcoin_reader.ErrNodeNotAvailable {
					fail(step, "RequestBlock returned an error: "+err.Error())
				}
			}
			// who received it?  Verified live peers answer a ping after whatever was queued before it;
			// the others are listened to for 30 ms.
			got := map[string]bool{}
			for name, s := range w.sess {
				if stopped[name] {
					continue
				}
				out := map[string]int{}
				if verified[name] {
					n := s.rng.Uint64()
					if s.write(wireMessage(wire.NewMsgPing(n)), 10*time.Second) {
						s.collect(n, 10*time.Second, out)
					}
				} else {
					s.collect(0, 30*time.Millisecond, out)
				}
				if out[want] > 0 {
					got[name] = true
				}
			}
			var chosen []string
			for name := range got {
				chosen = append(chosen, name)
				if !verified[name] {
					fail(step, fmt.Sprintf("%s: %s reached a peer that has not completed handshake and verification (%s)", op.Op, want, sub[name]))
				}
			}
			if len(chosen) > 1 {
				fail(step, fmt.Sprintf("%s: one request reached %d peers", op.Op, len(chosen)))
			}
			stats.Lock()
			if len(chosen) == 0 {
				stats.NoneChosen++
			} else {
				stats.Selected++
			}
			if (len(chosen) == 0 && op.Node == "none") || (len(chosen) == 1 && chosen[0] == op.Node) {
				stats.AgreeWalk++
			} else {
				stats.DifferWalk++
			}
			stats.Unlock()
			if len(chosen) == 1 && chosen[0] != op.Node {
				// the implementation walked differently from the specification: the rest of the behaviour's
				// expectations do not apply
				return divs, ""
			}
		}
		if len(divs) > 0 {
			return divs, ""
		}
	}
	return divs, ""
}

func nselMain(args []string) int {
	fs := flag.NewFlagSet("nsel", flag.ExitOnError)
	in := fs.String("in", "", "behaviours (TLC output or jsonl)")
	seed := fs.Int64("seed", 1, "seed")
	workers := fs.Int("workers", 8, "parallel workers")
	max := fs.Int("max", 0, "replay at most this many behaviours (0 = all)")
	fs.Parse(args)
	stats := &nselStats{Ops: map[string]int{}, HandStates: map[string]int{}}
	type job struct {
		idx  int
		line string
	}
	var jobs []job
	if err := behaviourLines(*in, "BEH", func(idx int, line string) { jobs = append(jobs, job{idx, line}) }); err != nil {
		fmt.Fprintln(os.Stderr, err)
		return 2
	}
	if *max > 0 && len(jobs) > *max {
		// a seed-chosen stride through the (ordered) behaviours
		stride := len(jobs) / *max
		var sel []job
		for i := int(*seed % int64(stride)); i < len(jobs) && len(sel) < *max; i += stride {
			sel = append(sel, jobs[i])
		}
		jobs = sel
	}
	ch := make(chan job)
	var mu sync.Mutex
	var divs []nselDiv
	skipped := map[string]int{}
	var wg sync.WaitGroup
	for i := 0; i < *workers; i++ {
		wg.Add(1)
		go func() {
			defer wg.Done()
			for j := range ch {
				d, skip := nselRun(j.idx, j.line, *seed, stats)
				mu.Lock()
				stats.Behaviours++
				divs = append(divs, d...)
				if skip != "" {
					skipped[skip]++
					stats.HarnessSkip++
				}
				mu.Unlock()
			}
		}()
	}
	for _, j := range jobs {
		ch <- j
	}
	close(ch)
	wg.Wait()
	if divs == nil {
		divs = []nselDiv{}
	}
	if len(divs) > 50 {
		divs = divs[:50]
	}
	json.NewEncoder(os.Stdout).Encode(map[string]interface{}{"stats": stats, "divergences": divs, "skipped": skipped})
	return 0
}
