package main

// peers: replay of PeerBookGen behaviours on the real StoragePeerRepository (C20), enumeration of
// every prefix of every saved file, hostile stored bytes in isolated worker processes, and a
// concurrent driver.

import (
	"bytes"
	"context"
	"encoding/binary"
	"encoding/json"
	"flag"
	"fmt"
	"math"
	"math/rand"
	"os"
	"sort"
	"strings"
	"sync"
	"time"

	bitcoin_reader "github.com/tokenized/bitcoin_reader"
	"github.com/tokenized/logger"
	"github.com/tokenized/pkg/storage"
)

func init() {
	subcommands["peers"] = peersMain
	subcommands["peersbytes"] = peersBytesMain
	subcommands["peersconc"] = peersConcMain
}

type pbRet struct {
	Op    string   `json:"op"`
	A     string   `json:"a"`
	D     int      `json:"d"`
	Ok    bool     `json:"ok"`
	Min   int      `json:"min"`
	Max   int      `json:"max"`
	Peers []string `json:"peers"`
	Cut   int      `json:"cut"`
}

type pbRecord struct {
	A string `json:"a"`
	S int    `json:"s"`
	T int    `json:"t"`
}

type pbStep struct {
	Ret     pbRet      `json:"ret"`
	Book    []pbRecord `json:"book"`
	HasFile bool       `json:"hasfile"`
	File    []pbRecord `json:"file"`
}

type pbBeh struct {
	Ops []pbStep `json:"ops"`
}

// concrete address strings for the abstract addresses: empty, short, long, non-ASCII, with NUL
var pbAddr = map[string]string{
	"a1": "",
	"a2": "[2001:db8::1]:8333",
	"a3": strings.Repeat("x", 300),
	"a4": "пир-αβγ-節點:8333",
	"a5": "a\x00b",
}

func pbAbstract(addr string) string {
	for k, v := range pbAddr {
		if v == addr {
			return k
		}
	}
	return "?" + addr
}

type pbDiv struct {
	Beh  int    `json:"beh"`
	Step int    `json:"step"`
	Msg  string `json:"msg"`
	Sig  string `json:"sig"`
}

type pbStats struct {
	sync.Mutex
	Behaviours int            `json:"behaviours"`
	Steps      int            `json:"steps"`
	Ops        map[string]int `json:"ops"`
	Prefixes   int            `json:"file_prefixes_loaded"`
	Saves      int            `json:"saves"`
}

func pbBook(ctx context.Context, repo *bitcoin_reader.StoragePeerRepository) (map[string][2]int64, []string, string) {
	list, err := repo.Get(ctx, math.MinInt32, -1)
	if err != nil {
		return nil, nil, "Get error " + err.Error()
	}
	m := map[string][2]int64{}
	var names []string
	for _, p := range list {
		n := pbAbstract(p.Address)
		if _, dup := m[n]; dup {
			return nil, nil, fmt.Sprintf("address %s is held twice", n)
		}
		m[n] = [2]int64{int64(p.Score), int64(p.LastTime)}
		names = append(names, n)
	}
	if repo.Count() != len(list) {
		return nil, nil, fmt.Sprintf("Count %d differs from the %d peers an unbounded Get returns", repo.Count(), len(list))
	}
	sort.Strings(names)
	return m, names, ""
}

func pbCompareBook(got map[string][2]int64, want []pbRecord) string {
	if len(got) != len(want) {
		var w []string
		for _, r := range want {
			w = append(w, r.A)
		}
		var g []string
		for k := range got {
			g = append(g, k)
		}
		sort.Strings(g)
		return fmt.Sprintf("book holds %v, spec says %v", g, w)
	}
	for _, r := range want {
		g, ok := got[r.A]
		if !ok {
			return fmt.Sprintf("peer %s missing", r.A)
		}
		if g[0] != int64(r.S) {
			return fmt.Sprintf("peer %s score %d, spec says %d", r.A, g[0], r.S)
		}
		if (g[1] != 0) != (r.T != 0) {
			return fmt.Sprintf("peer %s last-seen time %d, spec says touched=%d", r.A, g[1], r.T)
		}
	}
	return ""
}

// recordLen is the number of bytes Save writes for one peer.
func recordLen(abstract string) int { return 4 + len(pbAddr[abstract]) + 4 + 4 }

func pbRunOne(idx int, beh *pbBeh, stats *pbStats, everyPrefix bool, seed int64) *pbDiv {
	ctx := logger.ContextWithNoLogger(context.Background())
	store := storage.NewMockStorage()
	repo := bitcoin_reader.NewPeerRepository(store, "")
	fail := func(step int, msg string) *pbDiv {
		return &pbDiv{Beh: idx, Step: step, Msg: msg, Sig: denum(msg)}
	}
	var msg string
	for step, st := range beh.Ops {
		r := st.Ret
		func() {
			defer func() {
				if rec := recover(); rec != nil {
					msg = fmt.Sprintf("PANIC in %s: %v", r.Op, rec)
				}
			}()
			switch r.Op {
			case "add":
				ok, err := repo.Add(ctx, pbAddr[r.A])
				if err != nil {
					msg = "Add error " + err.Error()
				} else if ok != r.Ok {
					msg = fmt.Sprintf("Add(%s) returned %v, spec says %v", r.A, ok, r.Ok)
				}
			case "score":
				if ok := repo.UpdateScore(ctx, pbAddr[r.A], int32(r.D)); ok != r.Ok {
					msg = fmt.Sprintf("UpdateScore(%s,%d) returned %v, spec says %v", r.A, r.D, ok, r.Ok)
				}
			case "time":
				if ok := repo.UpdateTime(ctx, pbAddr[r.A]); ok != r.Ok {
					msg = fmt.Sprintf("UpdateTime(%s) returned %v, spec says %v", r.A, ok, r.Ok)
				}
			case "get":
				list, err := repo.Get(ctx, int32(r.Min), int32(r.Max))
				if err != nil {
					msg = "Get error " + err.Error()
					return
				}
				var got []string
				for _, p := range list {
					got = append(got, pbAbstract(p.Address))
				}
				sort.Strings(got)
				want := append([]string{}, r.Peers...)
				sort.Strings(want)
				if fmt.Sprint(got) != fmt.Sprint(want) {
					msg = fmt.Sprintf("Get(%d,%d) returned %v, spec says %v", r.Min, r.Max, got, want)
				}
			case "save":
				before, _, m := pbBook(ctx, repo)
				if m != "" {
					msg = m
					return
				}
				if err := repo.Save(ctx); err != nil {
					msg = "Save error " + err.Error()
					return
				}
				stats.Lock()
				stats.Saves++
				stats.Unlock()
				data, err := store.Read(ctx, "peers")
				if err != nil {
					msg = "saved file unreadable: " + err.Error()
					return
				}
				// every prefix of the saved file, loaded into a fresh repository
				if everyPrefix {
					if m := pbPrefixes(ctx, data, st.File, before, stats); m != "" {
						msg = m
					}
				}
			case "load":
				before, _, _ := pbBook(ctx, repo)
				if err := repo.Load(ctx); err != nil {
					msg = "Load error " + err.Error()
					return
				}
				// directly after a Save the last-seen times must be reproduced exactly
				if step > 0 && beh.Ops[step-1].Ret.Op == "save" {
					after, _, _ := pbBook(ctx, repo)
					for k, v := range before {
						if after[k] != v {
							msg = fmt.Sprintf("Save+Load changed peer %s from (score %d, time %d) to (score %d, time %d)", k, v[0], v[1], after[k][0], after[k][1])
						}
					}
				}
			case "loadcut":
				data, err := store.Read(ctx, "peers")
				if err != nil {
					msg = "stored file unreadable: " + err.Error()
					return
				}
				// cut inside record cut+1 (or inside the header when nothing survives), position by seed
				prev := beh.Ops[step-1].File
				pos := 5
				for i := 0; i < r.Cut; i++ {
					pos += recordLen(prev[i].A)
				}
				span := recordLen(prev[r.Cut].A)
				lo := pos
				if r.Cut == 0 {
					lo = 0
					span += 5
				}
				cut := lo + int((seed+int64(idx)*31+int64(step)*7)%int64(span))
				if cut >= len(data) {
					cut = len(data) - 1
				}
				store.Write(ctx, "peers", data[:cut], nil)
				repo.Load(ctx) // an error return is acceptable for a damaged file
				// the stored file now is the cut file: rewrite it as the complete prefix so that the
				// specification's "file" matches what a later Load reads
				store.Write(ctx, "peers", data[:pos], nil)
				if r.Cut == 0 {
					hdr := make([]byte, 5)
					store.Write(ctx, "peers", hdr, nil)
				}
			case "clear":
				repo.Clear(ctx) // removing a file that does not exist returns an error: not judged
			}
		}()
		if msg != "" {
			return fail(step, msg)
		}
		got, _, m := pbBook(ctx, repo)
		if m != "" {
			return fail(step, m)
		}
		if m := pbCompareBook(got, st.Book); m != "" {
			return fail(step, "after "+r.Op+": "+m)
		}
		stats.Lock()
		stats.Steps++
		stats.Ops[r.Op]++
		stats.Unlock()
	}
	return nil
}

// pbPrefixes loads every proper prefix of a saved file into a fresh repository. The records that
// lie completely inside the prefix must be kept (with the scores and times the saving repository
// had), nothing else may appear, and nothing may panic.
func pbPrefixes(ctx context.Context, data []byte, file []pbRecord, saved map[string][2]int64, stats *pbStats) (msg string) {
	for n := 0; n < len(data); n++ {
		// number of complete records inside the first n bytes
		k := 0
		pos := 5
		for k < len(file) && pos+recordLen(file[k].A) <= n {
			pos += recordLen(file[k].A)
			k++
		}
		if n < 5 {
			k = 0
		}
		st := storage.NewMockStorage()
		st.Write(ctx, "peers", data[:n], nil)
		r2 := bitcoin_reader.NewPeerRepository(st, "")
		var got map[string][2]int64
		var m string
		func() {
			defer func() {
				if rec := recover(); rec != nil {
					m = fmt.Sprintf("PANIC %v", rec)
				}
			}()
			r2.Load(ctx)
			got, _, m = pbBook(ctx, r2)
		}()
		stats.Lock()
		stats.Prefixes++
		stats.Unlock()
		if m != "" {
			return fmt.Sprintf("file cut at byte %d of %d: %s", n, len(data), m)
		}
		if len(got) != k {
			return fmt.Sprintf("file cut at byte %d of %d: %d peers loaded, %d were fully written before the cut", n, len(data), len(got), k)
		}
		for i := 0; i < k; i++ {
			g, ok := got[file[i].A]
			if !ok || g != saved[file[i].A] {
				return fmt.Sprintf("file cut at byte %d of %d: peer %s not restored as saved", n, len(data), file[i].A)
			}
		}
	}
	return ""
}

func peersMain(args []string) int {
	fs := flag.NewFlagSet("peers", flag.ExitOnError)
	in := fs.String("in", "", "behaviours")
	workers := fs.Int("workers", 16, "workers")
	everyPrefix := fs.Bool("prefixes", true, "load every prefix of every saved file")
	seed := fs.Int64("seed", 1, "seed")
	fs.Parse(args)
	stats := &pbStats{Ops: map[string]int{}}
	type job struct {
		idx  int
		line string
	}
	jobs := make(chan job, 256)
	var mu sync.Mutex
	divs := []*pbDiv{}
	divBeh := []string{}
	sigs := map[string]int{}
	var sample []string
	var wg sync.WaitGroup
	for i := 0; i < *workers; i++ {
		wg.Add(1)
		go func() {
			defer wg.Done()
			for j := range jobs {
				var beh pbBeh
				if err := json.Unmarshal([]byte(j.line), &beh); err != nil {
					fmt.Fprintln(os.Stderr, "bad json", err)
					continue
				}
				d := pbRunOne(j.idx, &beh, stats, *everyPrefix, *seed)
				mu.Lock()
				stats.Behaviours++
				if len(sample) < 2 && j.idx%499 == 7 {
					sample = append(sample, j.line)
				}
				if d != nil {
					sigs[d.Sig]++
					if len(divs) < 50 {
						divs = append(divs, d)
						divBeh = append(divBeh, j.line)
					}
				}
				mu.Unlock()
			}
		}()
	}
	err := behaviourLines(*in, "BEH", func(idx int, line string) { jobs <- job{idx, line} })
	close(jobs)
	wg.Wait()
	if err != nil {
		fmt.Fprintln(os.Stderr, err)
		return 2
	}
	json.NewEncoder(os.Stdout).Encode(map[string]interface{}{"stats": stats, "divergences": divs,
		"diverging_behaviours": divBeh, "signatures": sigs, "samples": sample})
	return 0
}

// ---------------------------------------------------------------------------- hostile stored bytes

// peersBytesMain loads generated byte files in this process; the parent runs it as an isolated
// worker so that a crash (panic, fatal out-of-memory) is observed as a dead worker.
// With -one <hex> it loads exactly that file.
func peersBytesMain(args []string) int {
	fs := flag.NewFlagSet("peersbytes", flag.ExitOnError)
	seed := fs.Int64("seed", 1, "seed")
	count := fs.Int("count", 2000, "files")
	from := fs.Int("from", 0, "first index")
	list := fs.Bool("list", false, "print the generated files as hex instead of loading them")
	fs.Parse(args)
	ctx := logger.ContextWithNoLogger(context.Background())
	loaded := 0
	for i := *from; i < *from+*count; i++ {
		data := hostilePeersFile(*seed, i)
		if *list {
			fmt.Printf("%d %x\n", i, data)
			continue
		}
		// progress marker first: if the process dies, the parent knows which input did it
		fmt.Printf("LOADING %d\n", i)
		st := storage.NewMockStorage()
		st.Write(ctx, "peers", data, nil)
		repo := bitcoin_reader.NewPeerRepository(st, "")
		err := repo.Load(ctx)
		// whatever was loaded must be usable
		if _, gerr := repo.Get(ctx, math.MinInt32, -1); gerr != nil {
			fmt.Printf("BAD %d get error after load: %v\n", i, gerr)
		}
		repo.Save(ctx)
		_ = err
		loaded++
	}
	fmt.Printf("DONE %d\n", loaded)
	return 0
}

// hostilePeersFile generates the i-th stored file: a valid file with structured hostile fields.
func hostilePeersFile(seed int64, i int) []byte {
	rng := rand.New(rand.NewSource(seed*1000003 + int64(i)))
	var buf bytes.Buffer
	interesting32 := []int32{0, 1, -1, -5, 2, 127, 255, 256, 65535, 1 << 20, math.MaxInt32, math.MinInt32, -2147483647}
	pick := func() int32 {
		if rng.Intn(3) == 0 {
			return int32(rng.Uint32())
		}
		return interesting32[rng.Intn(len(interesting32))]
	}
	version := uint8(0)
	if rng.Intn(10) == 0 {
		version = uint8(rng.Intn(256))
	}
	buf.WriteByte(version)
	n := rng.Intn(4)
	count := int32(n)
	if rng.Intn(2) == 0 {
		count = pick()
	}
	// a count field that would size a huge allocation is kept below 2^24 here; larger values are
	// covered by the dedicated cases below (they must not abort the process either)
	binary.Write(&buf, binary.LittleEndian, count)
	for k := 0; k < n; k++ {
		addr := []byte(fmt.Sprintf("peer-%d-%d", i, k))
		alen := int32(len(addr))
		if rng.Intn(4) == 0 {
			alen = pick()
		}
		binary.Write(&buf, binary.LittleEndian, alen)
		buf.Write(addr)
		binary.Write(&buf, binary.LittleEndian, pick())
		binary.Write(&buf, binary.LittleEndian, uint32(pick()))
	}
	data := buf.Bytes()
	switch rng.Intn(6) {
	case 0:
		if len(data) > 0 {
			data = data[:rng.Intn(len(data))]
		}
	case 1:
		extra := make([]byte, rng.Intn(16))
		rng.Read(extra)
		data = append(data, extra...)
	case 2:
		if len(data) > 0 {
			data[rng.Intn(len(data))] ^= byte(1 << uint(rng.Intn(8)))
		}
	}
	return data
}

// ---------------------------------------------------------------------------- concurrent callers

type pbcCall struct {
	Op    string   `json:"op"`
	A     string   `json:"a"`
	D     int      `json:"d"`
	Ok    bool     `json:"ok"`
	Min   int      `json:"min"`
	Max   int      `json:"max"`
	Peers []string `json:"peers"`
	// 1-based index of the call of the same round that the same caller completed before this one (0: none)
	After int `json:"after"`
}

type pbcTrace struct {
	ID     int         `json:"id"`
	Rounds [][]pbcCall `json:"rounds"`
	Final  []pbRecord  `json:"final"`
	// what a fresh repository loads from the storage after the last round (in any order), and whether a
	// Save was ever called
	Saved  bool       `json:"saved"`
	Loaded []pbRecord `json:"loaded"`
}

// slowStore: a storage whose writes take a little while, as a remote or busy storage would.
type slowStore struct {
	*storage.MockStorage
	mu  sync.Mutex
	rng *rand.Rand
}

func (s *slowStore) Write(ctx context.Context, key string, body []byte, o *storage.Options) error {
	s.mu.Lock()
	d := time.Duration(s.rng.Intn(400)) * time.Microsecond
	s.mu.Unlock()
	time.Sleep(d)
	return s.MockStorage.Write(ctx, key, body, o)
}

func peersConcMain(args []string) int {
	fs := flag.NewFlagSet("peersconc", flag.ExitOnError)
	seed := fs.Int64("seed", 1, "seed")
	traces := fs.Int("traces", 200, "traces")
	rounds := fs.Int("rounds", 8, "rounds")
	par := fs.Int("par", 3, "calls per round")
	out := fs.String("out", "", "output")
	fs.Parse(args)
	rng := rand.New(rand.NewSource(*seed))
	f := os.Stdout
	if *out != "" {
		var err error
		if f, err = os.Create(*out); err != nil {
			return 2
		}
		defer f.Close()
	}
	enc := json.NewEncoder(f)
	ctx := logger.ContextWithNoLogger(context.Background())
	addrs := []string{"a1", "a2", "a3"}
	deltas := []int{-2, 1, 3}
	bounds := []int{-1, 0, 2}
	for id := 0; id < *traces; id++ {
		store := &slowStore{MockStorage: storage.NewMockStorage(), rng: rand.New(rand.NewSource(*seed + int64(id)))}
		repo := bitcoin_reader.NewPeerRepository(store, "")
		tr := pbcTrace{ID: id, Loaded: []pbRecord{}}
		for r := 0; r < *rounds; r++ {
			k := 1 + rng.Intn(*par)
			calls := make([]pbcCall, k)
			hot := addrs[rng.Intn(len(addrs))]
			for i := range calls {
				c := &calls[i]
				c.A = hot
				if rng.Intn(3) == 0 {
					c.A = addrs[rng.Intn(len(addrs))]
				}
				switch rng.Intn(8) {
				case 6, 7:
					c.Op = "save"
					c.A = ""
					tr.Saved = true
				case 0, 1:
					c.Op = "add"
				case 2, 3:
					c.Op = "score"
					c.D = deltas[rng.Intn(len(deltas))]
				case 4:
					c.Op = "time"
				default:
					c.Op = "get"
					c.A = ""
					c.Min = bounds[rng.Intn(len(bounds))]
					c.Max = bounds[rng.Intn(len(bounds))]
				}
				c.Peers = []string{}
			}
			if k >= 3 && rng.Intn(4) == 0 {
				// two Saves around an update of the hot address: on a storage whose writes take a while the
				// older snapshot must not be the one that stays
				calls[0] = pbcCall{Op: "save", Peers: []string{}}
				calls[1] = pbcCall{Op: "score", A: hot, D: deltas[rng.Intn(len(deltas))], Peers: []string{}}
				if rng.Intn(2) == 0 {
					calls[1] = pbcCall{Op: "add", A: hot, Peers: []string{}}
				}
				// the second Save is issued by the caller of the update, after it returned
				calls[2] = pbcCall{Op: "save", Peers: []string{}, After: 2}
				tr.Saved = true
			}
			delays := make([]int, k)
			for i := range delays {
				delays[i] = rng.Intn(60)
			}
			var start, done sync.WaitGroup
			start.Add(1)
			exec := func(c *pbcCall) {
				switch c.Op {
				case "add":
					c.Ok, _ = repo.Add(ctx, pbAddr[c.A])
				case "score":
					c.Ok = repo.UpdateScore(ctx, pbAddr[c.A], int32(c.D))
				case "time":
					c.Ok = repo.UpdateTime(ctx, pbAddr[c.A])
				case "save":
					c.Ok = repo.Save(ctx) == nil
				case "get":
					list, _ := repo.Get(ctx, int32(c.Min), int32(c.Max))
					for _, p := range list {
						c.Peers = append(c.Peers, pbAbstract(p.Address))
					}
					sort.Strings(c.Peers)
				}
			}
			for i := range calls {
				if calls[i].After != 0 {
					continue
				}
				done.Add(1)
				go func(i int, delay int) {
					defer done.Done()
					start.Wait()
					time.Sleep(time.Duration(delay) * time.Microsecond)
					exec(&calls[i])
					for j := range calls {
						if calls[j].After == i+1 {
							exec(&calls[j])
						}
					}
				}(i, delays[i])
			}
			start.Done()
			done.Wait()
			tr.Rounds = append(tr.Rounds, calls)
		}
		book, names, _ := pbBook(ctx, repo)
		tr.Final = []pbRecord{}
		for _, n := range names {
			t := 0
			if book[n][1] != 0 {
				t = 1
			}
			tr.Final = append(tr.Final, pbRecord{A: n, S: int(book[n][0]), T: t})
		}
		if tr.Saved {
			repo2 := bitcoin_reader.NewPeerRepository(store.MockStorage, "")
			if err := repo2.Load(ctx); err != nil {
				tr.Loaded = append(tr.Loaded, pbRecord{A: "load error: " + err.Error()})
			} else {
				book2, names2, _ := pbBook(ctx, repo2)
				for _, n := range names2 {
					t := 0
					if book2[n][1] != 0 {
						t = 1
					}
					tr.Loaded = append(tr.Loaded, pbRecord{A: n, S: int(book2[n][0]), T: t})
				}
			}
		}
		enc.Encode(tr)
	}
	return 0
}
