package main

// prf: every case of MerkleProofs.tla (tree shape, position, single-element corruption) is
// instantiated as a real merkle_proof.MerkleProof - built by the harness's own tree code, not by the
// dependency - for a header placed on the best chain, on a side branch, in pruned best-chain
// history, or nowhere, given with the header or with the block hash only, and handed to
// Repository.VerifyMerkleProof (C18).

import (
	"context"
	"encoding/json"
	"flag"
	"fmt"
	"os"

	"github.com/tokenized/bitcoin_reader/headers"
	"github.com/tokenized/logger"
	"github.com/tokenized/pkg/bitcoin"
	"github.com/tokenized/pkg/merkle_proof"
	"github.com/tokenized/pkg/storage"
	"github.com/tokenized/pkg/wire"
)

func init() { subcommands["prf"] = prfMain }

type prfCase struct {
	N    int    `json:"n"`
	Pos  int    `json:"pos"`
	Kind string `json:"kind"`
	At   int    `json:"at"`
	Ok   bool   `json:"ok"`
}

// merklePath returns the sibling hashes from the leaf level upwards and the root.
func merklePath(ids []bitcoin.Hash32, pos int) ([]bitcoin.Hash32, bitcoin.Hash32) {
	level := append([]bitcoin.Hash32{}, ids...)
	var path []bitcoin.Hash32
	idx := pos
	for len(level) > 1 {
		if len(level)%2 == 1 {
			level = append(level, level[len(level)-1])
		}
		path = append(path, level[idx^1])
		var next []bitcoin.Hash32
		for i := 0; i < len(level); i += 2 {
			next = append(next, dsha(append(append([]byte{}, level[i][:]...), level[i+1][:]...)))
		}
		level = next
		idx /= 2
	}
	return path, level[0]
}

type prfDiv struct {
	Case  prfCase `json:"case"`
	Place string  `json:"place"`
	Form  string  `json:"form"`
	Msg   string  `json:"msg"`
}

func prfMain(args []string) int {
	fs := flag.NewFlagSet("prf", flag.ExitOnError)
	in := fs.String("in", "", "TLC output with CASE lines")
	fs.Parse(args)
	ctx := logger.ContextWithNoLogger(context.Background())
	var cases []prfCase
	err := behaviourLines(*in, "CASE", func(idx int, line string) {
		var c prfCase
		if json.Unmarshal([]byte(line), &c) == nil {
			cases = append(cases, c)
		}
	})
	if err != nil {
		fmt.Fprintln(os.Stderr, err)
		return 2
	}
	divs := []prfDiv{}
	checks := 0
	byPlace := map[string]int{}
	var foreign bitcoin.Hash32
	for i := range foreign {
		foreign[i] = 0x5a
	}
	for _, c := range cases {
		var ids []bitcoin.Hash32
		for i := 1; i <= c.N; i++ {
			ids = append(ids, *bvTx(i).TxHash())
		}
		path, root := merklePath(ids, c.Pos)

		// repository: genesis - a1 - a2(block on the best chain) - a3 - a4 ; side branch s2 off a1
		cfg := headers.DefaultConfig()
		cfg.MaxBranchDepth = 100
		store := storage.NewMockStorage()
		repo := headers.NewRepository(cfg, store)
		repo.DisableDifficulty()
		repo.DisableSplitProtection()
		repo.InitializeWithGenesis()
		mk := func(prev bitcoin.Hash32, nonce uint32, r bitcoin.Hash32) *wire.BlockHeader {
			return &wire.BlockHeader{Version: 1, PrevBlock: prev, Timestamp: 1600000000 + nonce, Bits: 0x1d00ffff, Nonce: nonce, MerkleRoot: r}
		}
		var other bitcoin.Hash32
		other[0] = 1
		a1 := mk(repo.LastHash(), 1, other)
		a2 := mk(*a1.BlockHash(), 2, root)
		a3 := mk(*a2.BlockHash(), 3, other)
		a4 := mk(*a3.BlockHash(), 4, other)
		s2 := mk(*a1.BlockHash(), 12, root)
		u2 := mk(*a1.BlockHash(), 22, root) // never submitted
		for _, h := range []*wire.BlockHeader{a1, a2, a3, a4, s2} {
			if err := repo.ProcessHeader(ctx, h); err != nil {
				fmt.Fprintln(os.Stderr, "harness: ", err)
				return 2
			}
		}
		// a second repository where a2 has been pruned out of memory (served from storage)
		store2 := storage.NewMockStorage()
		repo2 := headers.NewRepository(cfg, store2)
		repo2.DisableDifficulty()
		repo2.DisableSplitProtection()
		repo2.InitializeWithGenesis()
		for _, h := range []*wire.BlockHeader{a1, a2, a3, a4} {
			repo2.ProcessHeader(ctx, h)
		}
		if err := repo2.VerifClean(ctx, 1); err != nil {
			fmt.Fprintln(os.Stderr, "harness: clean ", err)
			return 2
		}

		type place struct {
			name   string
			repo   *headers.Repository
			hdr    *wire.BlockHeader
			known  bool
			height int
			best   bool
		}
		places := []place{
			{"best", repo, a2, true, 2, true},
			{"side", repo, s2, true, 2, false},
			{"unknown", repo, u2, false, -1, false},
			{"pruned", repo2, a2, true, 2, true},
		}
		for _, pl := range places {
			// forms: the header, the block hash only, or both (as the block downloader emits them); with both, an
			// altered header next to the hash of the known header must not verify - the merkle root is the header's
			for _, form := range []string{"header", "hash", "both"} {
				for _, hdrCorrupt := range []bool{false, true} {
					if hdrCorrupt && (c.Kind != "none" || form == "hash") {
						continue
					}
					txid := ids[c.Pos]
					if c.Kind == "txid" {
						txid = foreign
					}
					p := &merkle_proof.MerkleProof{Index: c.Pos, TxID: &txid, Path: append([]bitcoin.Hash32{}, path...)}
					switch c.Kind {
					case "path":
						p.Path[c.At] = foreign
					case "index":
						p.Index = c.At
					case "shorter":
						p.Path = p.Path[:len(p.Path)-1]
					case "longer":
						p.Path = append(p.Path, foreign)
					}
					hdr := *pl.hdr
					if hdrCorrupt {
						hdr.Timestamp++ // a single altered header field: another (unknown) header
					}
					switch form {
					case "header":
						p.BlockHeader = &hdr
					case "hash":
						h := *hdr.BlockHash()
						p.BlockHash = &h
					default:
						p.BlockHeader = &hdr
						h := *pl.hdr.BlockHash() // the hash of the unaltered header
						p.BlockHash = &h
					}
					var height int
					var best bool
					var verr error
					panicMsg := ""
					func() {
						defer func() {
							if r := recover(); r != nil {
								panicMsg = fmt.Sprint(r)
							}
						}()
						height, best, verr = pl.repo.VerifyMerkleProof(ctx, p)
					}()
					checks++
					byPlace[pl.name]++
					wantOK := pl.known && !hdrCorrupt && c.Ok
					judged := c.Kind != "index" || !c.Ok // an index that addresses a duplicated node is indistinguishable
					msg := ""
					switch {
					case panicMsg != "":
						msg = "PANIC " + panicMsg
					case !judged:
					case wantOK && verr != nil:
						msg = fmt.Sprintf("valid proof refused: %v", verr)
					case !wantOK && verr == nil:
						msg = fmt.Sprintf("proof accepted (height %d, best %v) although it must fail", height, best)
					case wantOK && (height != pl.height || best != pl.best):
						msg = fmt.Sprintf("verified with height %d best %v, want height %d best %v", height, best, pl.height, pl.best)
					}
					if msg != "" && len(divs) < 50 {
						if hdrCorrupt {
							form += "(header altered)"
						}
						divs = append(divs, prfDiv{Case: c, Place: pl.name, Form: form, Msg: msg})
					}
				}
			}
		}
	}
	json.NewEncoder(os.Stdout).Encode(map[string]interface{}{"cases": len(cases), "verifications": checks, "by_place": byPlace,
		"divergences": divs})
	return 0
}
