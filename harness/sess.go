package main

// sess: scripted peer sessions against a real BitcoinNode over net.Pipe (C13, C14, C03 peer side).
// PeerSessionGen behaviours (sequences of inbound message classes with the expected outputs, sink
// calls and node state per message) are instantiated with real, correctly framed P2P messages. A
// ping barrier after every message delimits the steps: handlers are serialised by handleMessage, so
// everything an earlier message causes in the read loop precedes the pong.

import (
	"bytes"
	"context"
	"crypto/sha256"
	"encoding/binary"
	"encoding/json"
	"flag"
	"fmt"
	"io"
	"math/rand"
	"net"
	"os"
	"sort"
	"strings"
	"sync"
	"sync/atomic"
	"time"

	bitcoin_reader "github.com/tokenized/bitcoin_reader"
	"github.com/tokenized/bitcoin_reader/headers"
	"github.com/tokenized/logger"
	"github.com/tokenized/pkg/bitcoin"
	"github.com/tokenized/pkg/storage"
	"github.com/tokenized/pkg/wire"
)

func init() { subcommands["sess"] = sessMain }

const mainNetMagic = uint32(bitcoin.MainNet)

type sessState struct {
	Ready      bool `json:"ready"`
	Verified   bool `json:"verified"`
	Closed     bool `json:"closed"`
	Deaf       bool `json:"deaf"`
	HsComplete bool `json:"hsComplete"`
}

type sessStep struct {
	Msg   string    `json:"msg"`
	Out   []string  `json:"out"`
	Sinks []string  `json:"sinks"`
	Alt   bool      `json:"alt"`
	St    sessState `json:"st"`
}

type sessBeh struct {
	VerifyOnly bool `json:"verifyonly"`
	TxMgr      bool `json:"txmgr"`
	// set by harnesses that run several connections against one tx manager (not part of a behaviour)
	sharedTxm *bitcoin_reader.TxManager
	Steps     []sessStep `json:"steps"`
}

// ---------------------------------------------------------------------------- spies

type spyHeaders struct {
	*headers.Repository
	processCalls int32
	verifyCalls  int32
}

func (s *spyHeaders) ProcessHeader(ctx context.Context, h *wire.BlockHeader) error {
	atomic.AddInt32(&s.processCalls, 1)
	return s.Repository.ProcessHeader(ctx, h)
}

func (s *spyHeaders) VerifyHeader(ctx context.Context, h *wire.BlockHeader) error {
	atomic.AddInt32(&s.verifyCalls, 1)
	return s.Repository.VerifyHeader(ctx, h)
}

type spyPeers struct {
	*bitcoin_reader.StoragePeerRepository
	addCalls    int32
	updateCalls int32 // UpdateTime / UpdateScore: writes to an entry of the address book
}

func (s *spyPeers) UpdateTime(ctx context.Context, address string) bool {
	atomic.AddInt32(&s.updateCalls, 1)
	return s.StoragePeerRepository.UpdateTime(ctx, address)
}

func (s *spyPeers) UpdateScore(ctx context.Context, address string, delta int32) bool {
	atomic.AddInt32(&s.updateCalls, 1)
	return s.StoragePeerRepository.UpdateScore(ctx, address, delta)
}

func (s *spyPeers) Add(ctx context.Context, address string) (bool, error) {
	atomic.AddInt32(&s.addCalls, 1)
	return s.StoragePeerRepository.Add(ctx, address)
}

// ---------------------------------------------------------------------------- framing

func rawMessage(command string, payload []byte) []byte {
	var b bytes.Buffer
	binary.Write(&b, binary.LittleEndian, mainNetMagic)
	var cmd [12]byte
	copy(cmd[:], command)
	b.Write(cmd[:])
	binary.Write(&b, binary.LittleEndian, uint32(len(payload)))
	a := sha256.Sum256(payload)
	c := sha256.Sum256(a[:])
	b.Write(c[:4])
	b.Write(payload)
	return b.Bytes()
}

func extMessage(command string, payload []byte) []byte {
	var b bytes.Buffer
	binary.Write(&b, binary.LittleEndian, mainNetMagic)
	var cmd [12]byte
	copy(cmd[:], wire.CmdExtended)
	b.Write(cmd[:])
	binary.Write(&b, binary.LittleEndian, uint32(0xffffffff))
	b.Write([]byte{0, 0, 0, 0})
	var ecmd [12]byte
	copy(ecmd[:], command)
	b.Write(ecmd[:])
	binary.Write(&b, binary.LittleEndian, uint64(len(payload)))
	b.Write(payload)
	return b.Bytes()
}

func wireMessage(msg wire.Message) []byte {
	var b bytes.Buffer
	wire.WriteMessageN(&b, msg, wire.ProtocolVersion, wire.BitcoinNet(bitcoin.MainNet))
	return b.Bytes()
}

func headersPayload(hs []*wire.BlockHeader, txCount uint64) []byte {
	var b bytes.Buffer
	wire.WriteVarInt(&b, wire.ProtocolVersion, uint64(len(hs)))
	for _, h := range hs {
		h.Serialize(&b)
		wire.WriteVarInt(&b, wire.ProtocolVersion, txCount)
	}
	return b.Bytes()
}

var bchSplitHeader = func() *wire.BlockHeader {
	root, _ := bitcoin.NewHash32FromStr("1cf31105bd6b1b4dba9ae55290ec06fff15b4567ec62a6e3863409bb3efd1944")
	return &wire.BlockHeader{Version: 0x20000000, PrevBlock: headers.MainNetRequiredHeader.PrevBlock,
		MerkleRoot: *root, Timestamp: 1542304936, Bits: 402792411, Nonce: 3911120513}
}()

// ---------------------------------------------------------------------------- session

type inMsg struct {
	cmd   string
	nonce uint64
	data  []byte // payload, kept for getdata only
}

type session struct {
	ctx      context.Context
	beh      *sessBeh
	rng      *rand.Rand
	node     *bitcoin_reader.BitcoinNode
	repo     *spyHeaders
	peers    *spyPeers
	proc     *countingProcessor
	txm      *bitcoin_reader.TxManager
	conn     net.Conn
	inbox    chan inMsg
	eof      chan struct{}
	runDone  chan error
	intr     chan interface{}
	nodePing uint64
	gotPing  bool
	tip      bitcoin.Hash32
	txSeq    int
	big      bool // allow multi-megabyte payloads
	trace    []string

	seenProcess, seenAdd int32
	seenTx               int

	patient bool // re-run of a session that diverged: every wait is eight times as long
	tallyMu sync.Mutex
	tally   map[string]int // every message received so far, by command
	getdata [][]byte       // payloads of the getdata messages received so far

	lastTx        *wire.MsgTx // the transaction txAgain / invSeen refer to
	altOn         bool        // an alternate header handler is installed (half of the sessions)
	altMu         sync.Mutex
	altGot        [][]byte            // what it read, per invocation
	altHeaders    *headers.Repository // repository behind the alternate header handler, if one is installed
	wanted        []byte              // the requested block (payload of its block message)
	blockCalls    int32
	seenBlockCall int32
}

type sessDiv struct {
	// Hard: something happened that must never happen (a sink was reached, a peer counted as verified). No
	// scheduling delay can cause that, so it is reported without the patient re-run that "something
	// expected did not happen yet" gets.
	Hard bool   `json:"hard"`
	Prop string `json:"prop"`
	Beh  int    `json:"beh"`
	Step int    `json:"step"`
	Msg  string `json:"msg"`
	Sig  string `json:"sig"`
}

func newSession(beh *sessBeh, seed int64, big bool) *session {
	s := &session{beh: beh, rng: rand.New(rand.NewSource(seed)), big: big}
	s.ctx = logger.ContextWithNoLogger(context.Background())
	repo := headers.NewRepository(headers.DefaultConfig(), storage.NewMockStorage())
	repo.DisableDifficulty()
	repo.InitializeWithGenesis()
	s.repo = &spyHeaders{Repository: repo}
	s.tip = repo.LastHash()
	s.peers = &spyPeers{StoragePeerRepository: bitcoin_reader.NewPeerRepository(storage.NewMockStorage(), "")}
	cfg := bitcoin_reader.DefaultConfig()
	s.node = bitcoin_reader.NewBitcoinNode("127.0.0.1:8333", "/verif:1/", cfg, s.repo, s.peers)
	if beh.sharedTxm != nil {
		s.node.SetTxManager(beh.sharedTxm)
	} else if beh.TxMgr {
		s.txm = bitcoin_reader.NewTxManager(time.Hour)
		s.proc = newCountingProcessor()
		s.txm.SetTxProcessor(s.proc)
		go s.txm.Run(s.ctx)
		s.node.SetTxManager(s.txm)
	}
	if beh.VerifyOnly {
		s.node.SetVerifyOnly()
	}
	if s.rng.Intn(2) == 0 {
		// an alternate header handler that, like headers.Repository.HandleHeadersMessage, reads the count and then
		// that many headers (81 bytes each) and returns
		s.altOn = true
		s.node.SetHeaderHandler(func(ctx context.Context, header *wire.MessageHeader, r io.Reader) error {
			var got bytes.Buffer
			tee := io.TeeReader(r, &got)
			defer func() {
				s.altMu.Lock()
				s.altGot = append(s.altGot, got.Bytes())
				s.altMu.Unlock()
			}()
			count, err := wire.ReadVarInt(tee, wire.ProtocolVersion)
			if err != nil {
				return err
			}
			for i := uint64(0); i < count; i++ {
				if _, err := io.CopyN(io.Discard, tee, 81); err != nil {
					return err
				}
			}
			return nil
		})
	}
	a, b := net.Pipe()
	s.conn = b
	s.inbox = make(chan inMsg, 4096)
	s.eof = make(chan struct{})
	s.runDone = make(chan error, 1)
	s.intr = make(chan interface{})
	go func() { s.runDone <- s.node.VerifRunWithConn(s.ctx, a, s.intr) }()
	go func() {
		defer close(s.eof)
		// the scripted peer's own reader: 24 byte header, payload of the declared length
		for {
			hdr := make([]byte, 24)
			if _, err := io.ReadFull(b, hdr); err != nil {
				return
			}
			length := binary.LittleEndian.Uint32(hdr[16:20])
			payload := make([]byte, length)
			if _, err := io.ReadFull(b, payload); err != nil {
				return
			}
			cmd := string(bytes.TrimRight(hdr[4:16], "\x00"))
			m := inMsg{cmd: cmd}
			if (cmd == "pong" || cmd == "ping") && len(payload) >= 8 {
				m.nonce = binary.LittleEndian.Uint64(payload[:8])
			}
			if cmd == "getdata" {
				m.data = payload
			}
			s.inbox <- m
		}
	}()
	return s
}

func (s *session) close() {
	close(s.intr)
	s.conn.Close()
	select {
	case <-s.runDone:
	case <-time.After(5 * time.Second):
	}
	if s.txm != nil {
		s.txm.Stop(s.ctx)
	}
}

// write sends bytes to the node; false if the node does not take them (closed or not reading).
func (s *session) write(b []byte, d time.Duration) bool {
	s.conn.SetWriteDeadline(time.Now().Add(d))
	_, err := s.conn.Write(b)
	return err == nil
}

// collect gathers node output until the pong with the given nonce (ok), EOF, or the timeout.
func (s *session) collect(nonce uint64, d time.Duration, out map[string]int) (pong bool, eof bool) {
	timer := time.NewTimer(d)
	defer timer.Stop()
	for {
		select {
		case m := <-s.inbox:
			s.tallyMu.Lock()
			if s.tally == nil {
				s.tally = map[string]int{}
			}
			s.tally[m.cmd]++
			if m.cmd == "getdata" {
				s.getdata = append(s.getdata, m.data)
			}
			s.tallyMu.Unlock()
			if m.cmd == "pong" && m.nonce == nonce {
				return true, false
			}
			if m.cmd == "ping" && !s.gotPing {
				s.nodePing = m.nonce
				s.gotPing = true
			}
			out[m.cmd]++
		case <-s.eof:
			// drain what is left
			for {
				select {
				case m := <-s.inbox:
					out[m.cmd]++
				default:
					return false, true
				}
			}
		case <-timer.C:
			return false, false
		}
	}
}

// awaitCmd waits until the node has sent at least n messages of the command (counted over the whole
// session).  After version and verack the node's handshake goroutine asks its verification question
// (a getheaders) on its own schedule: only then does a headers message count as the answer.
func (s *session) awaitCmd(cmd string, n int, d time.Duration) bool {
	deadline := time.Now().Add(d)
	for {
		s.tallyMu.Lock()
		have := s.tally[cmd]
		s.tallyMu.Unlock()
		if have >= n {
			return true
		}
		if time.Now().After(deadline) {
			return false
		}
		if _, eof := s.collect(0, 5*time.Millisecond, map[string]int{}); eof {
			return false
		}
	}
}

// d scales a wait: a session that diverged is run again, alone and patiently, before it is reported.
func (s *session) d(x time.Duration) time.Duration {
	if s.patient {
		return 8 * x
	}
	return x
}

func (s *session) newTx() *wire.MsgTx {
	s.txSeq++
	tx := wire.NewMsgTx(1)
	tx.LockTime = uint32(s.rng.Int31())
	tx.AddTxOut(wire.NewTxOut(uint64(s.txSeq), []byte{0x6a, byte(s.txSeq)}))
	return tx
}

func (s *session) fabHeader(prev bitcoin.Hash32) *wire.BlockHeader {
	h := &wire.BlockHeader{Version: 1, PrevBlock: prev, Timestamp: uint32(1600000000 + s.rng.Intn(100000)),
		Bits: 0x1d00ffff, Nonce: s.rng.Uint32()}
	s.rng.Read(h.MerkleRoot[:])
	return h
}

func (s *session) payloadSize() int {
	sizes := []int{0, 1, 37, 1000, 1023, 1024, 1025, 2048, 4096, 65536}
	if s.big {
		sizes = append(sizes, 4<<20)
	}
	return sizes[s.rng.Intn(len(sizes))]
}

func (s *session) blockBytes() []byte {
	var b bytes.Buffer
	h := s.fabHeader(s.tip)
	h.Serialize(&b)
	n := 1 + s.rng.Intn(3)
	wire.WriteVarInt(&b, wire.ProtocolVersion, uint64(n))
	for i := 0; i < n; i++ {
		s.newTx().Serialize(&b)
	}
	return b.Bytes()
}

// build returns the bytes of one correctly framed message of the class.
func (s *session) build(class string) []byte {
	switch class {
	case "version":
		me := wire.NewNetAddressIPPort(net.IPv4(127, 0, 0, 1), 8333, 0)
		v := wire.NewMsgVersion(me, me, s.rng.Uint64(), 100)
		v.UserAgent = "/scripted:1/"
		return wireMessage(v)
	case "verack":
		return wireMessage(&wire.MsgVerAck{})
	case "ping":
		return nil // handled by the caller (needs the nonce)
	case "pongOK":
		return wireMessage(&wire.MsgPong{Nonce: s.nodePing})
	case "pongBad":
		return wireMessage(&wire.MsgPong{Nonce: s.nodePing + 1})
	case "protoconf":
		return wireMessage(wire.NewMsgProtoconf())
	case "reject":
		r := wire.NewMsgReject("tx", wire.RejectInsufficientFee, "fee too low")
		return wireMessage(r)
	case "addr":
		m := wire.NewMsgAddr()
		n := 1 + s.rng.Intn(3)
		for i := 0; i < n; i++ {
			m.AddAddress(wire.NewNetAddressIPPort(net.IPv4(10, byte(s.rng.Intn(250)), byte(s.rng.Intn(250)), byte(1+i)), 8333, wire.SFNodeNetwork))
		}
		return wireMessage(m)
	case "getaddr":
		return wireMessage(wire.NewMsgGetAddr())
	case "inv", "invBlock":
		m := wire.NewMsgInv()
		if class == "inv" {
			for i := 0; i < 1+s.rng.Intn(3); i++ {
				m.AddInvVect(wire.NewInvVect(wire.InvTypeTx, s.newTx().TxHash()))
			}
		}
		if class == "invBlock" || s.rng.Intn(2) == 0 {
			h := s.fabHeader(s.tip).BlockHash()
			m.AddInvVect(wire.NewInvVect(wire.InvTypeBlock, h))
		}
		return wireMessage(m)
	case "tx":
		s.lastTx = s.newTx()
		return wireMessage(s.lastTx)
	case "txAgain":
		// the transaction of the last tx message once more (the first one if there was none)
		if s.lastTx == nil {
			s.lastTx = s.newTx()
		}
		return wireMessage(s.lastTx)
	case "invSeen":
		// an inventory of exactly that transaction
		if s.lastTx == nil {
			s.lastTx = s.newTx()
		}
		m := wire.NewMsgInv()
		m.AddInvVect(wire.NewInvVect(wire.InvTypeTx, s.lastTx.TxHash()))
		return wireMessage(m)
	case "block":
		return rawMessage("block", s.blockBytes())
	case "blockWanted":
		if s.wanted == nil {
			return rawMessage("block", s.blockBytes()) // nothing requested: any block
		}
		return rawMessage("block", s.wanted)
	case "extTx":
		var b bytes.Buffer
		s.lastTx = s.newTx()
		s.lastTx.Serialize(&b)
		return extMessage("tx", b.Bytes())
	case "extBlock":
		return extMessage("block", s.blockBytes())
	case "extOther":
		p := make([]byte, s.payloadSize())
		s.rng.Read(p)
		return extMessage("foo", p)
	case "other":
		cmds := []string{"getheaders", "getdata", "notfound", "mempool", "sendheaders", "feefilter", "filterload",
			"filterclear", "merkleblock", "alert", "getblocks", "foo", "sendcmpct", "authch"}
		p := make([]byte, s.payloadSize())
		s.rng.Read(p)
		return rawMessage(cmds[s.rng.Intn(len(cmds))], p)
	case "hdrBSV":
		hs := []*wire.BlockHeader{headers.MainNetRequiredHeader}
		for i := 0; i < s.rng.Intn(3); i++ {
			hs = append(hs, s.fabHeader(*hs[len(hs)-1].BlockHash()))
		}
		return rawMessage("headers", headersPayload(hs, 0))
	case "hdrBCH":
		return rawMessage("headers", headersPayload([]*wire.BlockHeader{bchSplitHeader}, 0))
	case "hdrUnknown":
		var prev bitcoin.Hash32
		s.rng.Read(prev[:])
		return rawMessage("headers", headersPayload([]*wire.BlockHeader{s.fabHeader(prev)}, 0))
	case "hdrEmpty":
		return rawMessage("headers", headersPayload(nil, 0))
	case "hdrBSVSecond":
		var prev bitcoin.Hash32
		s.rng.Read(prev[:])
		return rawMessage("headers", headersPayload([]*wire.BlockHeader{s.fabHeader(prev), headers.MainNetRequiredHeader}, 0))
	case "hdrGood":
		var hs []*wire.BlockHeader
		prev := s.tip
		for i := 0; i < 1+s.rng.Intn(3); i++ {
			h := s.fabHeader(prev)
			hs = append(hs, h)
			prev = *h.BlockHash()
		}
		s.tip = prev
		return rawMessage("headers", headersPayload(hs, 0))
	case "hdrBad":
		var prev bitcoin.Hash32
		s.rng.Read(prev[:])
		return rawMessage("headers", headersPayload([]*wire.BlockHeader{s.fabHeader(prev)}, 0))
	case "hdrTxCount":
		return rawMessage("headers", headersPayload([]*wire.BlockHeader{headers.MainNetRequiredHeader}, 1))
	case "hdrBSVShort", "hdrGoodShort":
		// twenty headers announced (and declared in the length), the first one delivered
		first := headers.MainNetRequiredHeader
		if class == "hdrGoodShort" {
			first = s.fabHeader(s.tip)
			s.tip = *first.BlockHash()
		}
		hs := []*wire.BlockHeader{first}
		for i := 0; i < 19; i++ {
			hs = append(hs, s.fabHeader(*hs[len(hs)-1].BlockHash()))
		}
		return rawMessage("headers", headersPayload(hs, 0))[:24+1+81]
	}
	panic("unknown class " + class)
}

func setOf(m map[string]int) []string {
	var r []string
	for k := range m {
		r = append(r, k)
	}
	sort.Strings(r)
	return r
}

func normOut(xs []string) []string {
	m := map[string]int{}
	for _, x := range xs {
		if x == "getheadersVerify" {
			x = "getheaders"
		}
		m[x]++
	}
	return setOf(m)
}

// run plays the behaviour; returns the divergences of the first diverging step.
func (s *session) run(behIdx int) []sessDiv {
	var divs []sessDiv
	hard := false
	fail := func(step int, prop, msg string) {
		for _, p := range strings.Split(prop, "+") {
			divs = append(divs, sessDiv{Prop: p, Beh: behIdx, Step: step, Msg: msg, Sig: p + " " + denum(msg), Hard: hard})
		}
		hard = false
	}
	// the node starts by sending version and one ping
	init := map[string]int{}
	deadline := time.Now().Add(s.d(2 * time.Second))
	for (init["version"] == 0 || !s.gotPing) && time.Now().Before(deadline) {
		s.collect(0, 20*time.Millisecond, init)
	}
	if init["version"] == 0 || !s.gotPing {
		fail(-1, "C13", fmt.Sprintf("node did not open with version and ping: %v", setOf(init)))
		return divs
	}
	wasReady := false
	for step, st := range s.beh.Steps {
		out := map[string]int{}
		nonce := s.rng.Uint64()
		var data []byte
		var hdrPayload []byte
		sent := true
		coalesced := false
		bn := s.rng.Uint64()
		if st.Msg == "reqblock" {
			// the node manager asks this node for a block
			s.wanted = s.blockBytes()
			var hdr wire.BlockHeader
			hdr.Deserialize(bytes.NewReader(s.wanted[:80]))
			handler := func(ctx context.Context, h *wire.BlockHeader, n uint64, ch <-chan *wire.MsgTx) error {
				atomic.AddInt32(&s.blockCalls, 1)
				for range ch {
				}
				return nil
			}
			if err := s.node.RequestBlock(s.ctx, *hdr.BlockHash(), handler, func(context.Context) {}); err != nil {
				fail(step, "C14", "RequestBlock on a ready node failed: "+err.Error())
			}
			s.trace = append(s.trace, "reqblock")
		} else {
			if st.Msg == "ping" {
				data = wireMessage(wire.NewMsgPing(nonce))
			} else {
				data = s.build(st.Msg)
			}
			s.trace = append(s.trace, fmt.Sprintf("%s(%d bytes)", st.Msg, len(data)))
			if strings.HasPrefix(st.Msg, "hdr") && len(data) >= 24 {
				hdrPayload = append([]byte{}, data[24:]...)
			}
			// half of the messages travel together with the barrier ping in one write (two messages in one
			// segment): a handler that reads ahead of its own payload swallows the ping
			verifyingHeaders := s.beh.VerifyOnly && st.St.Closed && !st.St.Ready && strings.HasPrefix(st.Msg, "hdr")
			if st.Msg != "ping" && (s.rng.Intn(2) == 0 || verifyingHeaders) {
				coalesced = true
				s.trace[len(s.trace)-1] += "+ping"
				extra := []byte{}
				if verifyingHeaders {
					// a verify-only node disconnects as soon as verification succeeds: an addr message that arrives in
					// the same segment as the verifying headers must not reach the address book any more
					extra = s.build("addr")
					s.trace[len(s.trace)-1] += "+addr"
				}
				data = append(append(append([]byte{}, data...), extra...), wireMessage(wire.NewMsgPing(bn))...)
			}
			sent = s.write(data, s.d(2*time.Second))
		}
		pong, eof := false, false
		if sent {
			if st.Msg == "ping" {
				pong, eof = s.collect(nonce, s.d(time.Second), out)
				if pong {
					out["pong"]++
				}
			}
			// barrier
			if !eof {
				barrier := s.d(time.Second)
				if st.St.Deaf {
					barrier = s.d(250 * time.Millisecond) // no answer is expected
				}
				if coalesced {
					pong, eof = s.collect(bn, barrier, out)
				} else if s.write(wireMessage(wire.NewMsgPing(bn)), s.d(2*time.Second)) {
					pong, eof = s.collect(bn, barrier, out)
				} else {
					pong = false
					_, eof = s.collect(bn, s.d(300*time.Millisecond), out)
				}
			}
		} else {
			_, eof = s.collect(0, s.d(300*time.Millisecond), out)
		}
		// the spec may expect asynchronous output of the handshake goroutine or of accept(): wait for it
		want := normOut(st.Out)
		waitUntil := time.Now().Add(s.d(500 * time.Millisecond))
		for !eof && !subset(want, out) && time.Now().Before(waitUntil) {
			_, eof = s.collect(0, 5*time.Millisecond, out)
		}
		if st.St.Closed && !eof {
			_, eof = s.collect(0, s.d(500*time.Millisecond), out)
		}

		// ---- observations
		gotOut := setOf(out)
		proc := atomic.LoadInt32(&s.repo.processCalls) - s.seenProcess
		adds := atomic.LoadInt32(&s.peers.addCalls) - s.seenAdd
		s.seenProcess += proc
		s.seenAdd += adds
		wantSinks := map[string]bool{}
		for _, k := range st.Sinks {
			wantSinks[k] = true
		}
		txs := 0
		if s.proc != nil {
			wantTx := s.seenTx
			if wantSinks["AddTx"] {
				wantTx++
			}
			s.proc.waitTotal(wantTx, s.d(300*time.Millisecond))
			s.proc.mu.Lock()
			txs = s.proc.total - s.seenTx
			s.seenTx = s.proc.total
			s.proc.mu.Unlock()
		}
		gotSinks := map[string]bool{}
		if proc > 0 {
			gotSinks["ProcessHeader"] = true
		}
		if adds > 0 {
			gotSinks["peers.Add"] = true
		}
		if out["getdata"] > 0 && (st.Msg == "inv" || st.Msg == "invSeen") {
			gotSinks["AddTxID"] = true
		}
		if txs > 0 {
			gotSinks["AddTx"] = true
		}
		if wantSinks["BlockHandler"] {
			for t := 0; t < int(s.d(300)) && atomic.LoadInt32(&s.blockCalls) == s.seenBlockCall; t++ {
				time.Sleep(time.Millisecond)
			}
		}
		if bc := atomic.LoadInt32(&s.blockCalls); bc != s.seenBlockCall {
			gotSinks["BlockHandler"] = true
			s.seenBlockCall = bc
		}
		phase := "C14"
		if !wasReady {
			phase = "C13"
		}
		isHdr := strings.HasPrefix(st.Msg, "hdr")
		if fmt.Sprint(keys(gotSinks)) != fmt.Sprint(keys(wantSinks)) {
			p := phase
			if !st.St.Ready && !wasReady {
				p = "C13"
			}
			for k := range gotSinks {
				// these two are called by the handler itself, before the barrier ping is answered; the tx
				// processor and the block handler run on their own goroutines and can be late
				if !wantSinks[k] && (k == "ProcessHeader" || k == "peers.Add") {
					hard = true
				}
			}
			fail(step, p, fmt.Sprintf("after %s: sinks reached %v, spec says %v", st.Msg, keys(gotSinks), keys(wantSinks)))
		}
		if upd := atomic.LoadInt32(&s.peers.updateCalls); upd > 0 && !wasReady && !st.St.Ready {
			// the scripted connection is handed to the node ready-made (no dial, hence no "connected" time stamp):
			// before the peer is verified nothing writes to the address book, not even to the peer's own entry
			hard = true
			fail(step, "C13", fmt.Sprintf("after %s: the address book was written (UpdateTime / UpdateScore, %d calls) for a peer that is not verified", st.Msg, upd))
		}
		if s.altOn && st.Alt && hdrPayload != nil {
			// beyond the listed properties (label X-alt: counted and reported as a note, never as a violation): the
			// alternate header handler is given every byte of the message
			seen := false
			for t := 0; t < int(s.d(300)) && !seen; t++ {
				s.altMu.Lock()
				for _, g := range s.altGot {
					seen = seen || bytes.Equal(g, hdrPayload)
				}
				s.altMu.Unlock()
				if !seen {
					time.Sleep(time.Millisecond)
				}
			}
			if !seen {
				fail(step, "X-alt", fmt.Sprintf("after %s: the alternate header handler was not given the complete message (%d bytes)", st.Msg, len(hdrPayload)))
			}
		}
		if s.node.Verified() != st.St.Verified {
			p := "C13"
			if isHdr {
				p = "C03+C13"
			}
			hard = s.node.Verified() && !st.St.Verified
			fail(step, p, fmt.Sprintf("after %s: verified=%v, spec says %v", st.Msg, s.node.Verified(), st.St.Verified))
		}
		if st.St.Closed && eof {
			// the node clears its ready flag while it shuts down: give it a moment
			for t := 0; t < int(s.d(200)) && s.node.IsReady(); t++ {
				time.Sleep(time.Millisecond)
			}
		}
		if s.node.IsReady() != st.St.Ready && !(st.St.Closed && !s.node.IsReady()) {
			p := "C13"
			if isHdr {
				p = "C03+C13"
			}
			fail(step, p, fmt.Sprintf("after %s: ready=%v, spec says %v", st.Msg, s.node.IsReady(), st.St.Ready))
		}
		if st.St.Closed {
			if !eof {
				p := phase
				if isHdr && !wasReady {
					p = "C03+C13"
				}
				fail(step, p, fmt.Sprintf("after %s: connection still open (barrier answered=%v), spec says the node disconnects", st.Msg, pong))
			}
		} else {
			if eof {
				fail(step, phase, fmt.Sprintf("after %s: node closed the connection, spec says it stays up", st.Msg))
			} else if !pong && !st.St.Deaf {
				fail(step, phase, fmt.Sprintf("after %s: ping not answered although the connection is up", st.Msg))
			} else if pong && st.St.Deaf {
				fail(step, phase, fmt.Sprintf("after %s: ping answered although the rest of the announced headers is outstanding", st.Msg))
			}
			if fmt.Sprint(gotOut) != fmt.Sprint(want) {
				fail(step, phase, fmt.Sprintf("after %s: node sent %v, spec says %v", st.Msg, gotOut, want))
			}
		}
		if len(divs) > 0 || eof {
			break
		}
		if st.St.Deaf {
			// the node waits for the rest of the message; the peer hangs up instead: Run returns
			s.conn.Close()
			select {
			case err := <-s.runDone:
				s.runDone <- err
			case <-time.After(s.d(4 * time.Second)):
				fail(step, "C15", fmt.Sprintf("after %s and the peer hanging up: Run did not return", st.Msg))
			}
			break
		}
		wasReady = s.node.IsReady()
	}
	return divs
}

func subset(want []string, got map[string]int) bool {
	for _, w := range want {
		if got[w] == 0 {
			return false
		}
	}
	return true
}

func keys(m map[string]bool) []string {
	var r []string
	for k, v := range m {
		if v {
			r = append(r, k)
		}
	}
	sort.Strings(r)
	return r
}

func sessMain(args []string) int {
	fs := flag.NewFlagSet("sess", flag.ExitOnError)
	in := fs.String("in", "", "behaviours")
	workers := fs.Int("workers", 16, "workers")
	seed := fs.Int64("seed", 1, "seed")
	big := fs.Bool("big", false, "allow 4 MiB payloads")
	fs.Parse(args)
	type job struct {
		idx  int
		line string
	}
	jobs := make(chan job, 256)
	var mu sync.Mutex
	n, steps := 0, 0
	classes := map[string]int{}
	sigs := map[string]int{}
	type divOut struct {
		sessDiv
		Line  string   `json:"line"`
		Trace []string `json:"trace"`
	}
	divs := []divOut{}
	var again []job
	var sample []string
	var wg sync.WaitGroup
	for i := 0; i < *workers; i++ {
		wg.Add(1)
		go func() {
			defer wg.Done()
			for j := range jobs {
				var beh sessBeh
				if err := json.Unmarshal([]byte(j.line), &beh); err != nil {
					fmt.Fprintln(os.Stderr, "bad behaviour", err)
					continue
				}
				s := newSession(&beh, *seed*1000003+int64(j.idx), *big)
				ds := s.run(j.idx)
				s.close()
				isHard := false
				for _, d := range ds {
					isHard = isHard || d.Hard
				}
				if len(ds) > 0 && !isHard {
					// a scheduling hiccup must not become an alarm: the session is run again at the end,
					// alone and with eight times longer waits; only a divergence that repeats is reported
					mu.Lock()
					again = append(again, j)
					mu.Unlock()
					ds = nil
				}
				mu.Lock()
				n++
				steps += len(beh.Steps)
				for _, st := range beh.Steps {
					classes[st.Msg]++
				}
				if len(sample) < 3 && j.idx%389 == 11 {
					sample = append(sample, j.line)
				}
				for _, d := range ds {
					sigs[d.Sig]++
					if len(divs) < 80 {
						divs = append(divs, divOut{sessDiv: d, Line: j.line, Trace: s.trace})
					}
				}
				mu.Unlock()
			}
		}()
	}
	err := behaviourLines(*in, "BEH", func(idx int, line string) { jobs <- job{idx, line} })
	close(jobs)
	wg.Wait()
	reran := len(again)
	notRerun := 0
	if len(again) > 12 {
		// a real defect makes many sessions diverge: twelve patient re-runs decide, the others are only counted
		notRerun = len(again) - 12
		again = again[:12]
	}
	for _, j := range again {
		var beh sessBeh
		if json.Unmarshal([]byte(j.line), &beh) != nil {
			continue
		}
		s := newSession(&beh, *seed*1000003+int64(j.idx), *big)
		s.patient = true
		ds := s.run(j.idx)
		s.close()
		for _, d := range ds {
			sigs[d.Sig]++
			if len(divs) < 80 {
				divs = append(divs, divOut{sessDiv: d, Line: j.line, Trace: s.trace})
			}
		}
	}
	if err != nil {
		fmt.Fprintln(os.Stderr, err)
		return 2
	}
	json.NewEncoder(os.Stdout).Encode(map[string]interface{}{"sessions": n, "steps": steps, "classes": classes, "rerun_patiently": reran, "diverged_but_not_rerun": notRerun,
		"signatures": sigs, "divergences": divs, "samples": sample})
	return 0
}

var _ = io.EOF
