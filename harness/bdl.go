package main

// bdl: replay of BlockDownloadGen behaviours (C16, call granularity) on a real BlockDownloader.
// The node side of the block request is a mirror of BitcoinNode's bookkeeping (request, published
// reader, handler, on-stop function) exactly as modelled in BlockDownload.tla; the downloader, its
// Run, Cancel, Stop and HandleBlock are the real code. Events are issued one at a time and the
// observable state is compared at quiescence.

import (
	"context"
	"encoding/json"
	"flag"
	"fmt"
	"os"
	"runtime"
	"strings"
	"sync"
	"sync/atomic"
	"time"

	"github.com/google/uuid"
	"github.com/pkg/errors"
	bitcoin_reader "github.com/tokenized/bitcoin_reader"
	"github.com/tokenized/logger"
	"github.com/tokenized/pkg/bitcoin"
	"github.com/tokenized/pkg/wire"
	"github.com/tokenized/threads"
)

func init() { subcommands["bdl"] = bdlMain }

type bdObs struct {
	RunDone    bool   `json:"runDone"`
	Result     string `json:"result"`
	Handler    string `json:"handler"`
	Txs        int    `json:"txs"`
	NStarted   int    `json:"nStarted"`
	NComplete  int    `json:"nComplete"`
	CancelDone bool   `json:"cancelDone"`
	StopDone   bool   `json:"stopDone"`
}

type bdEvent struct {
	Ev  string `json:"ev"`
	Obs bdObs  `json:"obs"`
}

type bdBeh struct {
	NTx    int       `json:"ntx"`
	Events []bdEvent `json:"events"`
}

// mirrorNode is the node side of one block request (see BlockDownload.tla: nReq, nReader,
// nHandler, nOnStop, readerClosed).
type mirrorNode struct {
	mu           sync.Mutex
	id           uuid.UUID
	req          bool
	reader       bool
	handler      bitcoin_reader.HandleBlock
	onStop       bitcoin_reader.OnStop
	readerClosed bool

	handlerState string // idle, txLoop, done
	txChannel    chan *wire.MsgTx
	handed       int
	chClosed     bool
}

func (n *mirrorNode) ID() uuid.UUID { return n.id }

func (n *mirrorNode) CancelBlockRequest(ctx context.Context, hash bitcoin.Hash32) bool {
	n.mu.Lock()
	defer n.mu.Unlock()
	if !n.req {
		return false
	}
	if n.reader {
		n.readerClosed = true
		n.reader = false
		n.onStop = nil
		n.handler = nil
		return true
	}
	n.onStop = nil
	n.handler = nil
	return false
}

type bdWorld struct {
	ctx        context.Context
	bd         *bitcoin_reader.BlockDownloader
	node       *mirrorNode
	proc       *countingProcessor
	header     *wire.BlockHeader
	ntx        int
	intr       chan interface{}
	intrSet    bool
	runDone    chan error
	runErr     error
	runRet     bool
	hDone      chan struct{}
	cDone      chan struct{}
	sDone      chan struct{}
	cIssued    bool
	sIssued    bool
	runStarted bool
	stopPause  int // racing mode: scheduler yields between the node's read of blockOnStop and the call
	mu         sync.Mutex
}

func newBdWorld(ntx int, lateRun bool) *bdWorld {
	w := &bdWorld{ntx: ntx}
	w.ctx = logger.ContextWithNoLogger(context.Background())
	var ids []bitcoin.Hash32
	for i := 1; i <= ntx; i++ {
		ids = append(ids, *bvTx(i).TxHash())
	}
	w.header = &wire.BlockHeader{Version: 1, Timestamp: 1600000000, Bits: 0x1d00ffff, Nonce: 9}
	if ntx > 0 {
		w.header.MerkleRoot = merkleRoot(ids)
	}
	w.proc = newCountingProcessor()
	rec := &bvRecorder{c: &bvCase{}, header: w.header, reqHash: *w.header.BlockHash(), ctx: w.ctx}
	_ = rec
	w.bd = bitcoin_reader.NewBlockDownloader(w.proc, bitcoin_reader.NewMockBlockTxManager(), *w.header.BlockHash(), 777)
	w.node = &mirrorNode{id: uuid.New(), req: true, handlerState: "idle"}
	w.node.handler = w.bd.HandleBlock
	w.node.onStop = w.bd.Stop
	w.bd.SetCanceller(w.node.id, w.node)
	w.intr = make(chan interface{})
	w.runDone = make(chan error, 1)
	if !lateRun {
		w.startRun()
	}
	return w
}

// startRun starts the downloader's Run thread.  The block manager starts it after it has asked the node for
// the block, so the block message (and a shutdown) can be there before Run looks at its channels.
func (w *bdWorld) startRun() {
	if !w.runStarted {
		w.runStarted = true
		go func() { w.runDone <- w.bd.Run(w.ctx, w.intr) }()
	}
}

func (w *bdWorld) interrupt() {
	if !w.intrSet {
		w.intrSet = true
		close(w.intr)
	}
}

// issue performs one environment event.
func (w *bdWorld) issue(ev string) string {
	n := w.node
	switch ev {
	case "arrive":
		n.mu.Lock()
		if n.readerClosed {
			n.mu.Unlock()
			return "harness: arrive after the connection is gone"
		}
		if !n.req {
			n.handlerState = "done"
			n.mu.Unlock()
			return ""
		}
		if n.handler == nil {
			// cancelled before the download started: completeBlock
			n.req, n.reader, n.onStop = false, false, nil
			n.handlerState = "done"
			n.mu.Unlock()
			return ""
		}
		handler := n.handler
		n.reader = true
		n.txChannel = make(chan *wire.MsgTx, 1000)
		n.handlerState = "txLoop"
		ch := n.txChannel
		n.mu.Unlock()
		w.hDone = make(chan struct{})
		go func() {
			handler(w.ctx, w.header, uint64(w.ntx), ch)
			// completeBlock
			n.mu.Lock()
			n.req, n.reader, n.handler, n.onStop = false, false, nil, nil
			n.handlerState = "done"
			n.mu.Unlock()
			close(w.hDone)
		}()
	case "tx":
		n.mu.Lock()
		if n.handlerState != "txLoop" || n.chClosed {
			n.mu.Unlock()
			return "harness: tx event without a running handler"
		}
		if n.readerClosed || n.handed >= w.ntx {
			n.chClosed = true
			close(n.txChannel) // end of stream, or the read failed on the closed reader
		} else {
			n.handed++
			n.txChannel <- bvTx(n.handed)
		}
		n.mu.Unlock()
	case "cancel":
		w.cIssued = true
		w.cDone = make(chan struct{})
		go func() { w.bd.Cancel(w.ctx); close(w.cDone) }()
	case "stopthread", "shutdown":
		w.interrupt()
	case "peerdrop":
		n.mu.Lock()
		onStop := n.onStop
		n.readerClosed = true
		n.mu.Unlock()
		w.sIssued = true
		w.sDone = make(chan struct{})
		pause := w.stopPause
		go func() {
			// the node has read blockOnStop under its lock and calls it after releasing the lock: in racing
			// mode it is descheduled for a moment in between (a Cancel can run to completion meanwhile)
			for ; pause > 0; pause-- {
				runtime.Gosched()
			}
			if onStop != nil {
				onStop(w.ctx)
			}
			close(w.sDone)
		}()
	}
	return ""
}

func chDone(c chan struct{}) bool {
	if c == nil {
		return true
	}
	select {
	case <-c:
		return true
	default:
		return false
	}
}

func (w *bdWorld) observe() bdObs {
	var o bdObs
	if !w.runRet {
		select {
		case err := <-w.runDone:
			w.runRet = true
			w.runErr = err
		default:
		}
	}
	o.RunDone = w.runRet
	o.Result = "none"
	if w.runRet {
		switch {
		case w.runErr == nil:
			o.Result = "nil"
		case errors.Cause(w.runErr) == threads.Interrupted:
			o.Result = "interrupted"
		case errors.Cause(w.runErr).Error() == "Block Download Cancelled":
			o.Result = "cancelled"
		default:
			o.Result = "error:" + w.runErr.Error()
		}
	}
	w.node.mu.Lock()
	o.Handler = w.node.handlerState
	w.node.mu.Unlock()
	w.proc.mu.Lock()
	o.Txs = w.proc.total
	w.proc.mu.Unlock()
	o.NStarted = len(w.bd.Started)
	o.NComplete = len(w.bd.Complete)
	o.CancelDone = chDone(w.cDone)
	o.StopDone = chDone(w.sDone)
	return o
}

func normHandler(o bdObs) bdObs {
	switch o.Handler {
	case "idle", "txLoop", "done":
	default:
		o.Handler = "txLoop"
	}
	return o
}

// settle waits until the observation equals one of the expectations (quiescence), or the deadline.
// Returns the observation and the indexes of the expectations it equals.
func (w *bdWorld) settle(wants []bdObs, d time.Duration) (bdObs, []int) {
	deadline := time.Now().Add(d)
	match := func(o bdObs) []int {
		var r []int
		for i, x := range wants {
			if o == x {
				r = append(r, i)
			}
		}
		return r
	}
	var got bdObs
	for {
		got = w.observe()
		if len(match(got)) > 0 {
			time.Sleep(300 * time.Microsecond) // stable?
			got = w.observe()
			if m := match(got); len(m) > 0 {
				return got, m
			}
		}
		if time.Now().After(deadline) {
			return got, nil
		}
		time.Sleep(50 * time.Microsecond)
	}
}

// bdlRunGroup plays one event sequence. Where Run has a choice (both of its channels are ready)
// the specification allows several observation sequences: the real one must equal one of them.
func bdlRunGroup(ntx int, events []string, cands [][]bdObs) (string, []string) {
	w := newBdWorld(ntx, false)
	var trace []string
	msg := ""
	alive := make([]int, len(cands))
	for i := range alive {
		alive[i] = i
	}
	for step, ev := range events {
		trace = append(trace, ev)
		if m := w.issue(ev); m != "" {
			msg = fmt.Sprintf("step %d %s: %s", step, ev, m)
			break
		}
		var wants []bdObs
		for _, c := range alive {
			wants = append(wants, normHandler(cands[c][step]))
		}
		got, m := w.settle(wants, 3*time.Second)
		if len(m) == 0 {
			msg = fmt.Sprintf("after %s (step %d): %s", ev, step, diffObs(got, wants[0]))
			if len(wants) > 1 {
				msg += fmt.Sprintf(" (nor any of the %d other outcomes the spec allows)", len(wants)-1)
			}
			break
		}
		var next []int
		for _, k := range m {
			next = append(next, alive[k])
		}
		alive = next
	}
	// clean up: whatever the behaviour left running must be able to end
	w.interrupt()
	w.node.mu.Lock()
	if w.node.txChannel != nil && !w.node.chClosed {
		w.node.chClosed = true
		close(w.node.txChannel)
	}
	w.node.mu.Unlock()
	if msg == "" {
		// after the interrupt Run must return and nothing may stay blocked
		deadline := time.Now().Add(5 * time.Second)
		for time.Now().Before(deadline) {
			o := w.observe()
			if o.RunDone && o.CancelDone && o.StopDone && (w.hDone == nil || chDone(w.hDone)) {
				break
			}
			time.Sleep(100 * time.Microsecond)
		}
		o := w.observe()
		switch {
		case !o.RunDone:
			msg = "Run did not return after the interrupt at the end of the behaviour"
		case !o.CancelDone:
			msg = "Cancel is still blocked at the end of the behaviour"
		case !o.StopDone:
			msg = "Stop is still blocked at the end of the behaviour"
		case w.hDone != nil && !chDone(w.hDone):
			msg = "HandleBlock is still blocked at the end of the behaviour"
		}
	}
	return msg, trace
}

// bdlRush plays an event sequence WITHOUT waiting for quiescence between the events (tiny seed-chosen
// pauses only), so that Run, the handler, Cancel and Stop race the way they do when a shutdown, a
// cancellation and a dropped peer coincide.  The intermediate observations are not comparable then;
// what must hold is what TLC proves of BlockDownload.tla for every interleaving: after the final
// interrupt Run returns and neither Cancel, Stop nor HandleBlock stays blocked (RunReturns, NoSendBlocked).
func bdlRush(ntx int, events []string, seed int64) (string, []string) {
	x := uint64(seed)*6364136223846793005 + 1442695040888963407
	runAfter := int((x >> 50) % uint64(len(events)+2)) // Run starts after this many events (0: before the first)
	w := newBdWorld(ntx, runAfter > 0)
	w.stopPause = int((x >> 40) % 300)
	var trace []string
	for i, ev := range events {
		if i == runAfter {
			w.startRun()
		}
		trace = append(trace, ev)
		if m := w.issue(ev); m != "" {
			break // the sequence assumed a quiescent state that the race did not reach: stop issuing
		}
		x = x*6364136223846793005 + 1442695040888963407
		for spin := int((x >> 33) % 400); spin > 0; spin-- {
			runtime.Gosched()
		}
	}
	w.startRun()
	w.interrupt()
	w.node.mu.Lock()
	if w.node.txChannel != nil && !w.node.chClosed {
		w.node.chClosed = true
		close(w.node.txChannel)
	}
	w.node.mu.Unlock()
	deadline := time.Now().Add(5 * time.Second)
	for time.Now().Before(deadline) {
		o := w.observe()
		if o.RunDone && o.CancelDone && o.StopDone && (w.hDone == nil || chDone(w.hDone)) {
			return "", trace
		}
		time.Sleep(100 * time.Microsecond)
	}
	o := w.observe()
	switch {
	case !o.RunDone:
		return "racing events: Run did not return after the final interrupt", trace
	case !o.CancelDone:
		return "racing events: Cancel is still blocked on the downloader's signalling channels", trace
	case !o.StopDone:
		return "racing events: Stop is still blocked on the downloader's signalling channels", trace
	case w.hDone != nil && !chDone(w.hDone):
		return "racing events: HandleBlock is still blocked", trace
	}
	return "", trace
}

func diffObs(got, want bdObs) string {
	var parts []string
	add := func(name string, g, w interface{}) {
		if g != w {
			parts = append(parts, fmt.Sprintf("%s got %v want %v", name, g, w))
		}
	}
	add("Run returned", got.RunDone, want.RunDone)
	add("Run result", got.Result, want.Result)
	add("handler", got.Handler, want.Handler)
	add("txs processed", got.Txs, want.Txs)
	add("len(Started)", got.NStarted, want.NStarted)
	add("len(Complete)", got.NComplete, want.NComplete)
	add("Cancel returned", got.CancelDone, want.CancelDone)
	add("Stop returned", got.StopDone, want.StopDone)
	return strings.Join(parts, "; ")
}

func bdlMain(args []string) int {
	fs := flag.NewFlagSet("bdl", flag.ExitOnError)
	in := fs.String("in", "", "behaviours")
	workers := fs.Int("workers", 16, "workers")
	rush := fs.Int("rush", 0, "additionally play every event sequence this many times without waiting for quiescence")
	fs.Parse(args)
	var rushed int64
	type group struct {
		ntx    int
		events []string
		cands  [][]bdObs
		line   string
	}
	groups := map[string]*group{}
	var order []string
	err := behaviourLines(*in, "BEH", func(idx int, line string) {
		var beh bdBeh
		if err := json.Unmarshal([]byte(line), &beh); err != nil {
			fmt.Fprintln(os.Stderr, "bad behaviour", err)
			return
		}
		var evs []string
		var obs []bdObs
		for _, e := range beh.Events {
			evs = append(evs, e.Ev)
			obs = append(obs, e.Obs)
		}
		key := fmt.Sprint(beh.NTx, evs)
		g, ok := groups[key]
		if !ok {
			g = &group{ntx: beh.NTx, events: evs, line: line}
			groups[key] = g
			order = append(order, key)
		}
		g.cands = append(g.cands, obs)
	})
	if err != nil {
		fmt.Fprintln(os.Stderr, err)
		return 2
	}
	jobs := make(chan *group, 256)
	var mu sync.Mutex
	n, events, nbeh := 0, 0, 0
	sigs := map[string]int{}
	type div struct {
		Msg   string   `json:"msg"`
		Trace []string `json:"trace"`
		Line  string   `json:"line"`
	}
	divs := []div{}
	results := map[string]int{}
	var sample []string
	var wg sync.WaitGroup
	for i := 0; i < *workers; i++ {
		wg.Add(1)
		go func() {
			defer wg.Done()
			for g := range jobs {
				msg, trace := bdlRunGroup(g.ntx, g.events, g.cands)
				if msg != "" {
					// one retry against scheduling hiccups
					if msg2, trace2 := bdlRunGroup(g.ntx, g.events, g.cands); msg2 == "" {
						msg = ""
					} else {
						msg, trace = msg2, trace2
					}
				}
				if msg == "" && *rush > 0 {
					for k := 0; k < *rush && msg == ""; k++ {
						msg, trace = bdlRush(g.ntx, g.events, int64(k*7919+len(g.line)))
						atomic.AddInt64(&rushed, 1)
					}
				}
				mu.Lock()
				n++
				nbeh += len(g.cands)
				events += len(g.events)
				if len(g.events) > 0 {
					results[g.cands[0][len(g.events)-1].Result]++
				}
				if len(sample) < 3 && n%17 == 5 {
					sample = append(sample, g.line)
				}
				if msg != "" {
					sigs[denum(msg)]++
					if len(divs) < 60 {
						divs = append(divs, div{Msg: msg, Trace: trace, Line: g.line})
					}
				}
				mu.Unlock()
			}
		}()
	}
	for _, k := range order {
		jobs <- groups[k]
	}
	close(jobs)
	wg.Wait()
	// goroutines parked in the downloader at the end = something stayed blocked
	time.Sleep(20 * time.Millisecond)
	buf := make([]byte, 1<<22)
	stack := string(buf[:runtime.Stack(buf, true)])
	parked := strings.Count(stack, "bitcoin_reader.(*BlockDownloader)")
	json.NewEncoder(os.Stdout).Encode(map[string]interface{}{"behaviours": nbeh, "event_sequences": n, "events": events, "signatures": sigs,
		"racing_runs": atomic.LoadInt64(&rushed),
		"divergences": divs, "final_results": results, "samples": sample, "goroutines_parked_in_downloader": parked})
	return 0
}
