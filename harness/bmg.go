package main

// bmg: the manager layer of C16 on the real BlockManager with real BlockDownloaders and a scripted
// block source (BlockRequestor). Seed-chosen scenarios (which node serves, fails, hangs, drops in
// the middle; which requests the requester aborts) are executed and every call that crosses the
// harness boundary is recorded in order: RequestBlock calls, cancels, handler results, terminal
// signals, sampled downloader counts. TLC validates the trace against BlockManage.tla
// (specs/BlockManageTrace.tla): each request exactly one terminal signal, completed only after a
// downloader finished without error, never more than the configured number of downloads, and the
// downloader list drains.

import (
	"context"
	"encoding/json"
	"flag"
	"fmt"
	"math/rand"
	"os"
	"sync"
	"sync/atomic"
	"time"

	"github.com/google/uuid"
	"github.com/pkg/errors"
	bitcoin_reader "github.com/tokenized/bitcoin_reader"
	"github.com/tokenized/logger"
	"github.com/tokenized/pkg/bitcoin"
	"github.com/tokenized/pkg/wire"
)

func init() { subcommands["bmg"] = bmgMain }

type bmEvent struct {
	Ev     string `json:"ev"`
	R      int    `json:"r"`
	D      int    `json:"d"`
	Res    string `json:"res"`
	N      int    `json:"n"`
	Answer bool   `json:"answer"`
}

type bmTrace struct {
	ID     int       `json:"id"`
	NReq   int       `json:"nreq"`
	Conc   int       `json:"conc"`
	Events []bmEvent `json:"events"`
	Note   string    `json:"note"`
}

type bmBlock struct {
	header *wire.BlockHeader
	hash   bitcoin.Hash32
	txs    []*wire.MsgTx
}

type bmWorld struct {
	mu      sync.Mutex
	ctx     context.Context
	rng     *rand.Rand
	blocks  []*bmBlock
	byHash  map[bitcoin.Hash32]int
	events  []bmEvent
	nextD   int
	plan    map[int][]string // per request: behaviours of successive nodes
	planIdx map[int]int
	wg      sync.WaitGroup

	slowCancel bool
}

func (w *bmWorld) log(e bmEvent) {
	w.events = append(w.events, e)
}

// scripted node
type bmNode struct {
	w       *bmWorld
	id      uuid.UUID
	d, r    int
	kind    string
	mu      sync.Mutex
	started bool
	done    bool
	cancel  chan struct{}
	once    sync.Once
}

func (n *bmNode) ID() uuid.UUID { return n.id }

func (n *bmNode) CancelBlockRequest(ctx context.Context, hash bitcoin.Hash32) bool {
	n.mu.Lock()
	started := n.started && !n.done
	n.mu.Unlock()
	n.w.mu.Lock()
	n.w.log(bmEvent{Ev: "cancel", R: n.r, D: n.d, Answer: started})
	slow := n.w.rng.Intn(3) == 0 || n.w.slowCancel
	n.w.mu.Unlock()
	n.once.Do(func() { close(n.cancel) })
	if slow {
		// the node takes a moment to answer: other downloaders finish meanwhile
		time.Sleep(time.Duration(200+n.d*150) * time.Microsecond)
	}
	return started
}

func (w *bmWorld) RequestBlock(ctx context.Context, hash bitcoin.Hash32, handler bitcoin_reader.HandleBlock,
	onStop bitcoin_reader.OnStop) (bitcoin_reader.BlockRequestCanceller, error) {
	w.mu.Lock()
	r := w.byHash[hash]
	kinds := w.plan[r]
	kind := "serve"
	if w.planIdx[r] < len(kinds) {
		kind = kinds[w.planIdx[r]]
	}
	w.planIdx[r]++
	if kind == "refuse" {
		w.log(bmEvent{Ev: "nonode", R: r})
		w.mu.Unlock()
		return nil, bitcoin_reader.ErrNodeNotAvailable
	}
	w.nextD++
	n := &bmNode{w: w, id: uuid.New(), d: w.nextD, r: r, kind: kind, cancel: make(chan struct{})}
	w.log(bmEvent{Ev: "start", R: r, D: n.d, Res: kind})
	blk := w.blocks[r-1]
	delay := time.Duration(w.rng.Intn(3000)) * time.Microsecond
	w.mu.Unlock()

	w.wg.Add(1)
	go func() {
		defer w.wg.Done()
		finish := func(res string) {
			n.mu.Lock()
			n.done = true
			n.mu.Unlock()
			w.mu.Lock()
			w.log(bmEvent{Ev: "hdone", R: r, D: n.d, Res: res})
			w.mu.Unlock()
		}
		switch kind {
		case "hang":
			// never delivers; the request ends by a cancel (or the on-stop at the end)
			<-n.cancel
			return
		case "drop":
			// peer drops before the block starts
			select {
			case <-time.After(delay):
				onStop(ctx)
				finish("stopped")
			case <-n.cancel:
			}
			return
		}
		select {
		case <-time.After(delay):
		case <-n.cancel:
			return // cancelled before the block started
		}
		n.mu.Lock()
		n.started = true
		n.mu.Unlock()
		ch := make(chan *wire.MsgTx, 10)
		txs := blk.txs
		if kind == "badroot" {
			txs = append([]*wire.MsgTx{}, txs...)
			txs[len(txs)-1] = bvTx(16) // another transaction: the merkle root does not match
		}
		go func() {
			defer close(ch)
			for i, tx := range txs {
				if kind == "cutmid" && i == len(txs)-1 {
					return // stream cut before the last tx
				}
				select {
				case ch <- tx:
				case <-n.cancel:
					return // the node's reader was closed by the cancel
				}
			}
		}()
		err := handler(ctx, blk.header, uint64(len(blk.txs)), ch)
		switch {
		case err == nil:
			finish("ok")
		case errors.Cause(err).Error() == "Block Download Cancelled":
			finish("cancelled")
		default:
			finish("failed")
		}
	}()
	return n, nil
}

func bmgOne(id int, seed int64) bmTrace {
	rng := rand.New(rand.NewSource(seed))
	nreq := 1 + rng.Intn(3)
	conc := 1 + rng.Intn(4)
	// every fifth scenario: as many hanging downloads as allowed, aborted while all are listed, nodes
	// slow to answer the cancel (downloaders leave the list while the manager is still cancelling)
	crowd := id%5 == 0
	if crowd {
		conc = 3 + rng.Intn(2)
	}
	w := &bmWorld{rng: rng, byHash: map[bitcoin.Hash32]int{}, plan: map[int][]string{}, planIdx: map[int]int{}}
	w.ctx = logger.ContextWithNoLogger(context.Background())
	for r := 1; r <= nreq; r++ {
		ntx := 1 + rng.Intn(3)
		var txs []*wire.MsgTx
		var ids []bitcoin.Hash32
		for i := 0; i < ntx; i++ {
			tx := bvTx(1 + (r*4+i)%15)
			txs = append(txs, tx)
			ids = append(ids, *tx.TxHash())
		}
		h := &wire.BlockHeader{Version: 1, Timestamp: uint32(1600000000 + r), Bits: 0x1d00ffff, Nonce: uint32(seed) + uint32(r),
			MerkleRoot: merkleRoot(ids)}
		b := &bmBlock{header: h, hash: *h.BlockHash(), txs: txs}
		w.blocks = append(w.blocks, b)
		w.byHash[b.hash] = r
		// behaviours of the nodes that will be asked for this block, the last one serves
		kinds := []string{"serve", "hang", "drop", "badroot", "cutmid", "refuse", "serve", "hang"}
		var plan []string
		for k := 0; k < rng.Intn(6); k++ {
			plan = append(plan, kinds[rng.Intn(len(kinds))])
		}
		if rng.Intn(3) == 0 {
			plan = []string{"hang", "hang", "hang", "hang", "hang"}[:1+rng.Intn(5)]
		}
		if crowd {
			plan = []string{"hang", "hang", "hang", "hang", "hang", "hang"}
		}
		w.plan[r] = plan
	}
	w.slowCancel = crowd
	proc := newCountingProcessor()
	m := bitcoin_reader.NewBlockManager(bitcoin_reader.NewMockBlockTxManager(), w, conc, 4*time.Millisecond)
	intr := make(chan interface{})
	runDone := make(chan error, 1)
	go func() { runDone <- m.Run(w.ctx, intr) }()

	tr := bmTrace{ID: id, NReq: nreq, Conc: conc}
	for r := 1; r <= nreq; r++ {
		blk := w.blocks[r-1]
		w.mu.Lock()
		w.log(bmEvent{Ev: "add", R: r})
		w.mu.Unlock()
		complete, abort := m.AddRequest(w.ctx, blk.hash, 100+r, proc)
		if complete == nil {
			tr.Note = "manager no longer accepts requests"
			break
		}
		// the requester aborts a request that only hangs, after a while
		abortAfter := time.Duration(0)
		allHang := len(w.plan[r]) > 0
		for _, k := range w.plan[r] {
			if k != "hang" && k != "refuse" {
				allHang = false
			}
		}
		if rng.Intn(4) == 0 || (allHang && rng.Intn(2) == 0) {
			abortAfter = time.Duration(1+rng.Intn(12)) * time.Millisecond
		}
		if crowd {
			abortAfter = time.Duration(4*conc+2+rng.Intn(6)) * time.Millisecond
		}
		// a request that is still pending after a while (every node hangs) is aborted by the requester,
		// as block synchronisation does for orphaned blocks
		if abortAfter == 0 {
			abortAfter = 60 * time.Millisecond
		}
		timer := time.After(abortAfter)
		got := false
		for !got {
			select {
			case err, ok := <-complete:
				w.mu.Lock()
				if !ok {
					w.log(bmEvent{Ev: "terminal", R: r, Res: "completed"})
				} else if errors.Cause(err) == bitcoin_reader.BlockAborted {
					w.log(bmEvent{Ev: "terminal", R: r, Res: "aborted"})
				} else {
					w.log(bmEvent{Ev: "terminal", R: r, Res: fmt.Sprintf("error:%v", err)})
				}
				w.mu.Unlock()
				got = true
			case <-timer:
				w.mu.Lock()
				w.log(bmEvent{Ev: "abort", R: r})
				w.mu.Unlock()
				close(abort)
				timer = nil
			case <-time.After(5 * time.Second):
				w.mu.Lock()
				w.log(bmEvent{Ev: "stuck", R: r})
				w.mu.Unlock()
				tr.Note = "no terminal signal within 5 s"
				got = true
			}
		}
		// a second terminal signal must never come
		select {
		case err, ok := <-complete:
			if ok {
				w.mu.Lock()
				w.log(bmEvent{Ev: "terminal", R: r, Res: fmt.Sprintf("second:%v", err)})
				w.mu.Unlock()
			}
		case <-time.After(300 * time.Microsecond):
		}
	}
	// the downloader list must drain while the manager keeps running
	for r := 1; r <= nreq; r++ {
		deadline := time.Now().Add(3 * time.Second)
		for m.DownloaderCount(w.blocks[r-1].hash) > 0 && time.Now().Before(deadline) {
			time.Sleep(200 * time.Microsecond)
		}
		w.mu.Lock()
		w.log(bmEvent{Ev: "count", R: r, N: m.DownloaderCount(w.blocks[r-1].hash)})
		w.mu.Unlock()
	}
	close(intr)
	select {
	case <-runDone:
	case <-time.After(5 * time.Second):
		tr.Note += " manager Run did not return after the interrupt"
		w.mu.Lock()
		w.log(bmEvent{Ev: "stuck", R: 0})
		w.mu.Unlock()
	}
	w.mu.Lock()
	tr.Events = append([]bmEvent{}, w.events...)
	w.mu.Unlock()
	return tr
}

func bmgMain(args []string) int {
	fs := flag.NewFlagSet("bmg", flag.ExitOnError)
	seed := fs.Int64("seed", 1, "seed")
	traces := fs.Int("traces", 100, "traces")
	workers := fs.Int("workers", 8, "workers")
	out := fs.String("out", "", "output ndjson")
	fs.Parse(args)
	f := os.Stdout
	if *out != "" {
		var err error
		if f, err = os.Create(*out); err != nil {
			return 2
		}
		defer f.Close()
	}
	res := make([]bmTrace, *traces)
	jobs := make(chan int, *traces)
	var wg sync.WaitGroup
	for i := 0; i < *workers; i++ {
		wg.Add(1)
		go func() {
			defer wg.Done()
			for id := range jobs {
				res[id] = bmgOne(id+1, *seed*1000003+int64(id))
			}
		}()
	}
	for i := 0; i < *traces; i++ {
		jobs <- i
	}
	close(jobs)
	wg.Wait()
	enc := json.NewEncoder(f)
	for _, t := range res {
		enc.Encode(t)
	}
	return 0
}

// ---------------------------------------------------------------------------- shutdown with a full request queue
//
// RequestQueue.tla (the OutChannel pattern): AddRequest keeps the request mutex while it waits for room in the queue of
// ten, and closing the queue needs that mutex; the manager's loop is inside a request whose peers never deliver.  The
// shutdown interrupts the request first and closes the queue second, so that the loop drains the queue, the waiting
// AddRequest gets its room and everything returns.

type bmqOut struct {
	Requests     int    `json:"requests"`
	Adders       int    `json:"adders"`
	AddsReturned int    `json:"adds_returned"`
	RunReturned  bool   `json:"run_returned"`
	Left         int    `json:"downloaders_left"`
	Msg          string `json:"msg,omitempty"`
}

type bmqSilent struct{ id uuid.UUID }

func (p *bmqSilent) ID() uuid.UUID { return p.id }
func (p *bmqSilent) CancelBlockRequest(ctx context.Context, hash bitcoin.Hash32) bool {
	return false
}

type bmqRequestor struct{}

func (bmqRequestor) RequestBlock(ctx context.Context, hash bitcoin.Hash32, handler bitcoin_reader.HandleBlock,
	onStop bitcoin_reader.OnStop) (bitcoin_reader.BlockRequestCanceller, error) {
	return &bmqSilent{id: uuid.New()}, nil // accepts the request, never delivers the block
}

func bmqOne(requests, adders int, patience time.Duration) bmqOut {
	res := bmqOut{Requests: requests, Adders: adders}
	ctx := logger.ContextWithNoLogger(context.Background())
	m := bitcoin_reader.NewBlockManager(bitcoin_reader.NewMockBlockTxManager(), bmqRequestor{}, 2, 20*time.Millisecond)
	intr := make(chan interface{})
	runDone := make(chan error, 1)
	go func() { runDone <- m.Run(ctx, intr) }()
	proc := newCountingProcessor()
	var returned int32
	var hashes []bitcoin.Hash32
	for i := 0; i < requests; i++ {
		var h bitcoin.Hash32
		h[0], h[1] = byte(i+1), 0x51
		hashes = append(hashes, h)
	}
	var wg sync.WaitGroup
	for a := 0; a < adders; a++ {
		wg.Add(1)
		go func(a int) {
			defer wg.Done()
			for i := a; i < requests; i += adders {
				m.AddRequest(ctx, hashes[i], 1000+i, proc)
				atomic.AddInt32(&returned, 1)
			}
		}(a)
	}
	// one request active, ten queued, the others wait inside AddRequest
	time.Sleep(150 * time.Millisecond)
	close(intr)
	select {
	case <-runDone:
		res.RunReturned = true
	case <-time.After(patience):
	}
	addsDone := make(chan struct{})
	go func() { wg.Wait(); close(addsDone) }()
	select {
	case <-addsDone:
	case <-time.After(patience / 2):
	}
	res.AddsReturned = int(atomic.LoadInt32(&returned))
	for _, h := range hashes {
		res.Left += m.DownloaderCount(h)
	}
	switch {
	case !res.RunReturned:
		res.Msg = fmt.Sprintf("shutdown with a full request queue: Run did not return within %v after the interrupt (%d requests outstanding, peers silent)", patience, requests)
	case res.AddsReturned != requests:
		res.Msg = fmt.Sprintf("shutdown with a full request queue: %d of %d AddRequest calls never returned", requests-res.AddsReturned, requests)
	case res.Left != 0:
		res.Msg = fmt.Sprintf("shutdown with a full request queue: %d downloaders left in the list after Run returned", res.Left)
	}
	return res
}

func init() { subcommands["bmq"] = bmqMain }

func bmqMain(args []string) int {
	var outs []bmqOut
	for _, adders := range []int{1, 2, 3} {
		for _, requests := range []int{5, 11, 12, 13, 16} {
			o := bmqOne(requests, adders, 4*time.Second)
			if o.Msg != "" {
				if o2 := bmqOne(requests, adders, 16*time.Second); o2.Msg == "" {
					o = o2
				}
			}
			outs = append(outs, o)
		}
	}
	json.NewEncoder(os.Stdout).Encode(map[string]interface{}{"scenarios": outs})
	return 0
}
