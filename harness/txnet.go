package main

// txnet: C06 at the level of connections.  Three verified peers talk to real BitcoinNodes that share
// one real TxManager and one real NodeManager.  Peers announce transactions (inv), deliver them (tx),
// request timeouts pass (VerifAgeRequests) and the manager's periodic RequestTxs runs.  What the peers
// see - which of them is sent a getdata for which transaction - is recorded in the trace format of
// TxManagerLin.tla (rounds of one call) and TLC decides whether it is a behaviour of TxManager.tla:
// an announced transaction is requested from exactly one announcing peer, after a timeout from
// another peer that announced it, never after delivery, and reaches the processor once.

import (
	"bytes"
	"context"
	"encoding/json"
	"flag"
	"fmt"
	"math/rand"
	"os"
	"sort"
	"sync"
	"time"

	bitcoin_reader "github.com/tokenized/bitcoin_reader"
	"github.com/tokenized/bitcoin_reader/headers"
	"github.com/tokenized/logger"
	"github.com/tokenized/pkg/bitcoin"
	"github.com/tokenized/pkg/storage"
	"github.com/tokenized/pkg/wire"
)

func init() { subcommands["txnet"] = txnetMain }

type txnetTrace struct {
	txmcTrace
	Problem string `json:"problem"` // something the harness itself judged (a request sent to two peers at once, ...)
	Skipped string `json:"skipped"` // harness set-up problem: no verdict
}

func txnetOne(id int, seed int64, steps int) txnetTrace {
	rng := rand.New(rand.NewSource(seed))
	ctx := logger.ContextWithNoLogger(context.Background())
	tr := txnetTrace{}
	tr.ID = id
	tr.Processed = map[string]int{}
	tr.Saved = map[string]int{}
	tr.RunOK = true

	tm := bitcoin_reader.NewTxManager(time.Hour)
	proc := newCountingProcessor()
	tm.SetTxProcessor(proc)
	tm.SetTxSaver(proc)
	tmDone := make(chan error, 1)
	go func() { tmDone <- tm.Run(ctx) }()
	defer func() {
		tm.Stop(ctx)
		select {
		case <-tmDone:
		case <-time.After(3 * time.Second):
		}
	}()

	repo := headers.NewRepository(headers.DefaultConfig(), storage.NewMockStorage())
	repo.DisableDifficulty()
	repo.InitializeWithGenesis()
	cfg := bitcoin_reader.DefaultConfig()
	nm := bitcoin_reader.NewNodeManager("/verif:1/", cfg, repo, bitcoin_reader.NewPeerRepository(storage.NewMockStorage(), ""))
	nm.SetTxManager(tm)

	names := []string{"n1", "n2", "n3"}
	sess := map[string]*session{}
	defer func() {
		for _, s := range sess {
			s.close()
		}
	}()
	barrier := func(s *session, payload []byte) bool {
		if payload != nil && !s.write(payload, 10*time.Second) {
			return false
		}
		n := s.rng.Uint64()
		if !s.write(wireMessage(wire.NewMsgPing(n)), 10*time.Second) {
			return false
		}
		pong, _ := s.collect(n, 10*time.Second, map[string]int{})
		return pong
	}
	for i, name := range names {
		s := newSession(&sessBeh{sharedTxm: tm}, seed*31+int64(i), false)
		sess[name] = s
		if !s.awaitCmd("version", 1, 10*time.Second) || !barrier(s, s.build("version")) || !barrier(s, s.build("verack")) ||
			!s.awaitCmd("getheaders", 1, 10*time.Second) || !barrier(s, s.build("hdrBSV")) {
			tr.Skipped = "harness: handshake with " + name + " failed"
			return tr
		}
		for d := time.Now().Add(5 * time.Second); !s.node.IsReady() && time.Now().Before(d); {
			time.Sleep(time.Millisecond)
		}
		if !s.node.IsReady() {
			tr.Skipped = "harness: " + name + " not ready after verification"
			return tr
		}
		nm.VerifAddNode(s.node)
	}

	txs := map[string]*wire.MsgTx{"t1": mkTx(1), "t2": mkTx(2)}
	proc.relevant[*txs["t1"].TxHash()] = true
	nameOf := func(h bitcoin.Hash32) string {
		for k, tx := range txs {
			if tx.TxHash().Equal(&h) {
				return k
			}
		}
		return "?"
	}
	// the tx names asked for in the getdata messages a peer received since `from`
	asked := func(s *session, from int) []string {
		s.tallyMu.Lock()
		msgs := append([][]byte{}, s.getdata[from:]...)
		s.tallyMu.Unlock()
		var r []string
		for _, p := range msgs {
			m := wire.NewMsgGetData()
			if err := m.BtcDecode(bytes.NewReader(p), wire.ProtocolVersion); err != nil {
				r = append(r, "undecodable")
				continue
			}
			for _, iv := range m.InvList {
				if iv.Type == wire.InvTypeTx {
					r = append(r, nameOf(iv.Hash))
				}
			}
		}
		sort.Strings(r)
		return r
	}
	mark := func() map[string]int {
		m := map[string]int{}
		for n, s := range sess {
			s.tallyMu.Lock()
			m[n] = len(s.getdata)
			s.tallyMu.Unlock()
		}
		return m
	}
	add := func(c txmcCall) {
		if c.Txs == nil {
			c.Txs = []string{}
		}
		tr.Rounds = append(tr.Rounds, txmcRound{Calls: []txmcCall{c}})
	}
	txNames := []string{"t1", "t2"}
	pendingPolls := 0
	for step := 0; step < steps; step++ {
		n := names[rng.Intn(len(names))]
		t := txNames[rng.Intn(len(txNames))]
		s := sess[n]
		k := rng.Intn(9)
		if pendingPolls > 0 {
			k = 8
		}
		switch {
		case k < 4: // the peer announces the transaction
			before := mark()
			inv := wire.NewMsgInv()
			inv.AddInvVect(wire.NewInvVect(wire.InvTypeTx, txs[t].TxHash()))
			if !barrier(s, wireMessage(inv)) {
				tr.Skipped = "harness: inv not taken by " + n
				return tr
			}
			got := asked(s, before[n])
			req := false
			for _, x := range got {
				if x == t {
					req = true
				} else {
					tr.Problem = fmt.Sprintf("after an inv for %s peer %s was asked for %s", t, n, x)
				}
			}
			for other, so := range sess {
				if other != n && len(asked(so, before[other])) > 0 {
					tr.Problem = fmt.Sprintf("an inv from %s made the node ask %s for a transaction", n, other)
				}
			}
			add(txmcCall{Op: "announce", N: n, T: t, Req: req})
		case k < 6: // the peer delivers the transaction
			if !barrier(s, wireMessage(txs[t])) {
				tr.Skipped = "harness: tx not taken by " + n
				return tr
			}
			add(txmcCall{Op: "deliver", N: n, T: t})
		case k < 7: // a request timeout passes
			tm.VerifAgeRequests(time.Hour)
			add(txmcCall{Op: "tick"})
			pendingPolls = 1 + rng.Intn(3) // ... and the periodic retry runs a few times (it asks one connection per run)
		default: // the manager's periodic retry
			if pendingPolls > 0 {
				pendingPolls--
			}
			before := mark()
			if err := nm.RequestTxs(ctx); err != nil {
				tr.Problem = "RequestTxs: " + err.Error()
			}
			polled := 0
			for _, name := range names {
				so := sess[name]
				if !barrier(so, nil) {
					tr.Skipped = "harness: " + name + " does not answer"
					return tr
				}
				if got := asked(so, before[name]); len(got) > 0 {
					polled++
					add(txmcCall{Op: "poll", N: name, Txs: got, Max: cfg.TxRequestCount})
				}
			}
			if polled > 1 {
				tr.Problem = "one RequestTxs sent getdata to more than one peer"
			}
		}
	}
	// let the processor finish
	want := 0
	proc.mu.Lock()
	want = proc.total
	proc.mu.Unlock()
	proc.waitTotal(want, 50*time.Millisecond)
	time.Sleep(2 * time.Millisecond)
	proc.mu.Lock()
	for name, tx := range txs {
		tr.Processed[name] = proc.processed[*tx.TxHash()]
		tr.Saved[name] = proc.saved[*tx.TxHash()]
	}
	proc.mu.Unlock()
	return tr
}

func txnetMain(args []string) int {
	fs := flag.NewFlagSet("txnet", flag.ExitOnError)
	seed := fs.Int64("seed", 1, "seed")
	traces := fs.Int("traces", 100, "traces")
	steps := fs.Int("steps", 12, "steps per trace")
	workers := fs.Int("workers", 8, "workers")
	out := fs.String("out", "", "output ndjson")
	fs.Parse(args)
	f := os.Stdout
	if *out != "" {
		var err error
		if f, err = os.Create(*out); err != nil {
			fmt.Fprintln(os.Stderr, err)
			return 2
		}
		defer f.Close()
	}
	enc := json.NewEncoder(f)
	var mu sync.Mutex
	jobs := make(chan int)
	var wg sync.WaitGroup
	for i := 0; i < *workers; i++ {
		wg.Add(1)
		go func() {
			defer wg.Done()
			for id := range jobs {
				tr := txnetOne(id, *seed*1000003+int64(id), *steps)
				mu.Lock()
				enc.Encode(tr)
				mu.Unlock()
			}
		}()
	}
	for id := 1; id <= *traces; id++ {
		jobs <- id
	}
	close(jobs)
	wg.Wait()
	return 0
}
