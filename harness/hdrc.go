package main

// hdrc: several peers submit their chains to the real headers.Repository CONCURRENTLY (one goroutine
// per peer, one per maintenance caller, a subscriber), every call is recorded with the interval in
// which it ran, and the final reported state is recorded.  TLC (HeaderChainLin.tla) then decides whether
// some order of the calls that respects those intervals is a behaviour of HeaderChain.tla with exactly
// the recorded verdicts, the recorded final tip / accepted set and the chain the subscriber
// reconstructed (code -> spec, C01 and C07 over schedules).
//
// Two modes.  Plain: a fresh repository per run, a subscriber that reads with small delays.  Stall: the
// subscriber is 10000 headers behind, so its channel is full and every announcement has to wait for it;
// one repository serves many rounds (each round's pool hangs off the tip the previous round left, the
// backlog is topped up between rounds) and the subscriber's reconstruction is compared with the reported
// chain once, after the last round, when it has caught up.

import (
	"bufio"
	"context"
	"encoding/json"
	"flag"
	"fmt"
	"math/big"
	"math/rand"
	"os"
	"sort"
	"sync"
	"sync/atomic"
	"time"

	"github.com/tokenized/bitcoin_reader/headers"
	"github.com/tokenized/logger"
	"github.com/tokenized/pkg/bitcoin"
	"github.com/tokenized/pkg/storage"
	"github.com/tokenized/pkg/wire"
)

func init() { subcommands["hdrc"] = hdrcMain }

type hdrcCall struct {
	Peer    int    `json:"peer"`
	Op      string `json:"op"` // submit | clean
	B       int    `json:"b"`
	S       int64  `json:"s"`
	E       int64  `json:"e"`
	Verdict string `json:"verdict"`
}

type hdrcFinal struct {
	Tip   int   `json:"tip"`
	Chain []int `json:"chain"` // block ids by height from pool block 0, -1 = a hash the harness does not know
	Known []int `json:"known"` // pool blocks the repository reports as known
	Best  []int `json:"best"`  // pool blocks it reports as in the most-work chain
	Recon []int `json:"recon"` // the chain the subscriber reconstructed ([-1]: could not attach; [-2]: compared later)
	// relations the harness checked directly on the real repository
	WorkOK   bool   `json:"workOK"`   // accumulated work is the sum over the reported chain
	LinkOK   bool   `json:"linkOK"`   // each reported header links to the one below
	StreamOK bool   `json:"streamOK"` // stall mode, last round: the caught-up subscriber holds the reported chain
	Problem  string `json:"problem"`
}

type hdrcTrace struct {
	ID     int        `json:"id"`
	N      int        `json:"n"`
	Parent []int      `json:"parent"`
	Work   []int      `json:"work"`
	Peers  [][]int    `json:"peers"`
	Calls  []hdrcCall `json:"calls"`
	Final  hdrcFinal  `json:"final"`
	Stall  bool       `json:"stall"`
	Round  int        `json:"round"`
}

type hdrcPool struct {
	Parent []int `json:"parent"`
	Work   []int `json:"work"`
}

const hdrcBacklog = 10000 // capacity of a subscriber's channel

func hdrcMain(args []string) int {
	fs := flag.NewFlagSet("hdrc", flag.ExitOnError)
	seed := fs.Int64("seed", 1, "seed")
	in := fs.String("in", "", "behaviour file (jsonl): only the pools (parent, work) are used")
	out := fs.String("out", "", "output ndjson")
	per := fs.Int("per", 4, "concurrent runs per pool")
	maxPools := fs.Int("pools", 400, "max pools")
	workers := fs.Int("workers", 4, "runs in parallel")
	stall := fs.Bool("stall", false, "the subscriber's channel is full (10000 unread headers) whenever the peers start")
	rounds := fs.Int("rounds", 60, "stall mode: rounds per repository")
	fs.Parse(args)

	f, err := os.Open(*in)
	if err != nil {
		fmt.Fprintln(os.Stderr, err)
		return 2
	}
	seen := map[string]bool{}
	var pools []hdrcPool
	sc := bufio.NewScanner(f)
	sc.Buffer(make([]byte, 1<<20), 1<<26)
	for sc.Scan() {
		var p hdrcPool
		if json.Unmarshal(sc.Bytes(), &p) != nil || len(p.Parent) == 0 {
			continue
		}
		k := fmt.Sprint(p.Parent, p.Work)
		if !seen[k] {
			seen[k] = true
			pools = append(pools, p)
		}
	}
	f.Close()
	sort.Slice(pools, func(i, j int) bool { return fmt.Sprint(pools[i]) < fmt.Sprint(pools[j]) })
	rng := rand.New(rand.NewSource(*seed))
	rng.Shuffle(len(pools), func(i, j int) { pools[i], pools[j] = pools[j], pools[i] })
	if len(pools) > *maxPools {
		pools = pools[:*maxPools]
	}
	var work []hdrcPool
	for _, p := range pools {
		for k := 0; k < *per; k++ {
			work = append(work, p)
		}
	}

	of := os.Stdout
	if *out != "" {
		of, err = os.Create(*out)
		if err != nil {
			fmt.Fprintln(os.Stderr, err)
			return 2
		}
		defer of.Close()
	}
	var mu sync.Mutex
	enc := json.NewEncoder(of)
	emit := func(tr hdrcTrace) {
		mu.Lock()
		enc.Encode(tr)
		mu.Unlock()
	}
	type job struct {
		first int
		pools []hdrcPool
	}
	jobs := make(chan job)
	var wg sync.WaitGroup
	for i := 0; i < *workers; i++ {
		wg.Add(1)
		go func() {
			defer wg.Done()
			for j := range jobs {
				w := newHdrcWorld(*seed*1000003+int64(j.first), *stall)
				for k, p := range j.pools {
					tr := w.round(j.first+k, p, k == len(j.pools)-1)
					emit(tr)
					if tr.Final.Problem != "" && *stall {
						break
					}
				}
				w.close()
			}
		}()
	}
	chunk := 1
	if *stall {
		chunk = *rounds
	}
	for i := 0; i < len(work); i += chunk {
		j := i + chunk
		if j > len(work) {
			j = len(work)
		}
		jobs <- job{first: i + 1, pools: work[i:j]}
	}
	close(jobs)
	wg.Wait()
	return 0
}

type hdrcWorld struct {
	ctx     context.Context
	repo    *headers.Repository
	rng     *rand.Rand
	stall   bool
	unit    *big.Int
	nonce   uint32
	sub     <-chan *wire.BlockHeader
	recon   []bitcoin.Hash32
	reconOK bool
	// subscriber control
	run     int32 // 1: the subscriber reads
	parked  int32 // 1: the subscriber acknowledged the pause
	quit    chan struct{}
	subDone chan struct{}
	roundNo int
}

func newHdrcWorld(seed int64, stall bool) *hdrcWorld {
	w := &hdrcWorld{ctx: logger.ContextWithNoLogger(context.Background()), rng: rand.New(rand.NewSource(seed)),
		stall: stall, reconOK: true, quit: make(chan struct{}), subDone: make(chan struct{})}
	cfg := headers.DefaultConfig()
	cfg.MaxBranchDepth = 100000
	w.repo = headers.NewRepository(cfg, storage.NewMockStorage())
	w.repo.DisableDifficulty()
	w.repo.DisableSplitProtection()
	w.repo.InitializeWithGenesis()
	w.unit = bitcoin.ConvertToWork(bitcoin.ConvertToDifficulty(0x1d00ffff))
	w.recon = []bitcoin.Hash32{w.repo.LastHash()}
	// the subscriber registers before anything is submitted
	w.sub = w.repo.GetNewHeadersAvailableChannel()
	srng := rand.New(rand.NewSource(seed + 1))
	go func() {
		defer close(w.subDone)
		for {
			if atomic.LoadInt32(&w.run) == 0 {
				atomic.StoreInt32(&w.parked, 1)
				select {
				case <-w.quit:
					return
				default:
				}
				time.Sleep(2 * time.Microsecond)
				continue
			}
			atomic.StoreInt32(&w.parked, 0)
			select {
			case h := <-w.sub:
				var att bool
				w.recon, att = applyStream(w.recon, h)
				if !att {
					w.reconOK = false
				}
				if w.stall {
					for spin := 1000 + srng.Intn(6000); spin > 0; spin-- {
						atomic.LoadInt32(&w.run)
					}
				} else {
					time.Sleep(time.Duration(srng.Intn(30)) * time.Microsecond)
				}
			default:
			}
		}
	}()
	if stall {
		w.extend(hdrcBacklog)
	}
	return w
}

func (w *hdrcWorld) close() {
	close(w.quit)
	atomic.StoreInt32(&w.run, 0)
	<-w.subDone
}

// extend adds n headers on top of the reported tip, sequentially.
func (w *hdrcWorld) extend(n int) error {
	prev := w.repo.LastHash()
	for i := 0; i < n; i++ {
		w.nonce++
		h := &wire.BlockHeader{Version: 1, PrevBlock: prev, Timestamp: 1500000000 + w.nonce, Bits: 0x1d00ffff, Nonce: w.nonce}
		h.MerkleRoot[31] = 0xee
		if err := w.repo.ProcessHeader(w.ctx, h); err != nil {
			return err
		}
		prev = *h.BlockHash()
	}
	return nil
}

func (w *hdrcWorld) pauseSub() {
	atomic.StoreInt32(&w.run, 0)
	atomic.StoreInt32(&w.parked, 0)
	for atomic.LoadInt32(&w.parked) == 0 {
		time.Sleep(2 * time.Microsecond)
	}
}

// drain lets the subscriber catch up with everything that was announced.
func (w *hdrcWorld) drain() {
	atomic.StoreInt32(&w.run, 1)
	deadline := time.Now().Add(20 * time.Second)
	for len(w.sub) > 0 && time.Now().Before(deadline) {
		time.Sleep(20 * time.Microsecond)
	}
	time.Sleep(100 * time.Microsecond)
	w.pauseSub()
}

func (w *hdrcWorld) round(id int, pool hdrcPool, lastRound bool) hdrcTrace {
	w.roundNo++
	rng := w.rng
	ctx := w.ctx
	repo := w.repo
	N := len(pool.Parent)
	tr := hdrcTrace{ID: id, N: N, Parent: pool.Parent, Work: pool.Work, Calls: []hdrcCall{}, Peers: [][]int{}, Stall: w.stall, Round: w.roundNo}
	fin := hdrcFinal{Chain: []int{}, Known: []int{}, Best: []int{}, Recon: []int{}, WorkOK: true, LinkOK: true, StreamOK: true}

	if w.stall {
		// top the backlog up: the channel is full when the peers start
		w.pauseSub()
		if free := hdrcBacklog - len(w.sub); free > 0 {
			if err := w.extend(free); err != nil {
				fin.Problem = "a header extending the reported tip was refused: " + err.Error()
				tr.Final = fin
				return tr
			}
		}
	}
	root := repo.LastHash()
	base := repo.Height()
	rootWork := repo.AccumulatedWork()
	reconBase := len(w.recon) - 1

	// one real header per pool block
	hdr := make([]*wire.BlockHeader, N+1)
	hash := make([]bitcoin.Hash32, N+1)
	hash[0] = root
	idOf := map[bitcoin.Hash32]int{root: 0}
	for b := 1; b <= N; b++ {
		p := pool.Parent[b-1]
		w.nonce++
		h := &wire.BlockHeader{Version: 1, PrevBlock: hash[p], Timestamp: uint32(1600000000 + b*1000),
			Bits: hdrBits[pool.Work[b-1]], Nonce: w.nonce}
		h.MerkleRoot[0] = byte(b)
		hdr[b] = h
		hash[b] = *h.BlockHash()
		idOf[hash[b]] = b
	}

	// peers: one per leaf of the pool, submitting the path from the root to that leaf
	isParent := map[int]bool{}
	for _, p := range pool.Parent {
		isParent[p] = true
	}
	for b := 1; b <= N; b++ {
		if isParent[b] {
			continue
		}
		var path []int
		for x := b; x != 0; x = pool.Parent[x-1] {
			path = append([]int{x}, path...)
		}
		tr.Peers = append(tr.Peers, path)
	}
	if rng.Intn(3) == 0 && len(tr.Peers) > 0 {
		// a second peer delivering the same chain as another one
		tr.Peers = append(tr.Peers, tr.Peers[rng.Intn(len(tr.Peers))])
	}

	var clock int64
	var cmu sync.Mutex
	record := func(c hdrcCall) {
		cmu.Lock()
		tr.Calls = append(tr.Calls, c)
		cmu.Unlock()
	}
	// all callers leave a spinning barrier together: the calls are microseconds long, a channel wake-up is not
	var ready, goFlag int32
	nCallers := int32(len(tr.Peers))
	barrier := func() {
		atomic.AddInt32(&ready, 1)
		for atomic.LoadInt32(&goFlag) == 0 {
		}
	}
	var wg sync.WaitGroup
	for pi, path := range tr.Peers {
		wg.Add(1)
		go func(pi int, path []int) {
			defer wg.Done()
			barrier()
			for _, b := range path {
				s := atomic.AddInt64(&clock, 1)
				err := repo.ProcessHeader(ctx, hdr[b])
				e := atomic.AddInt64(&clock, 1)
				v := hdrClassify(err)
				if v == "nil" {
					v = "ok"
				}
				record(hdrcCall{Peer: pi + 1, Op: "submit", B: b, S: s, E: e, Verdict: v})
			}
		}(pi, path)
	}
	nclean := rng.Intn(3)
	if w.stall && rng.Intn(4) != 0 {
		nclean = 0 // maintenance rewrites the files of the 10000-header backlog chain: in one round of four
	}
	if nclean > 0 {
		nCallers++
		crng := rand.New(rand.NewSource(rng.Int63()))
		wg.Add(1)
		go func() {
			defer wg.Done()
			barrier()
			for k := 0; k < nclean; k++ {
				for spin := crng.Intn(2000); spin > 0; spin-- {
					atomic.LoadInt32(&goFlag)
				}
				s := atomic.AddInt64(&clock, 1)
				err := repo.VerifClean(ctx, 1000000)
				e := atomic.AddInt64(&clock, 1)
				v := "ok"
				if err != nil {
					v = "error: " + err.Error()
				}
				record(hdrcCall{Peer: 0, Op: "clean", B: 0, S: s, E: e, Verdict: v})
			}
		}()
	}
	for atomic.LoadInt32(&ready) < nCallers {
		time.Sleep(5 * time.Microsecond)
	}
	atomic.StoreInt32(&w.run, 1) // the subscriber reads while the peers submit
	atomic.StoreInt32(&goFlag, 1)
	finished := make(chan struct{})
	go func() { wg.Wait(); close(finished) }()
	select {
	case <-finished:
	case <-time.After(30 * time.Second):
		fin.Problem = "calls did not return within 30 s"
		tr.Final = fin
		return tr
	}
	if w.stall {
		w.pauseSub()
		if lastRound {
			w.drain()
		}
	} else {
		w.drain()
	}

	sort.Slice(tr.Calls, func(i, j int) bool { return tr.Calls[i].S < tr.Calls[j].S })

	// final observation
	tipHash := repo.LastHash()
	if t, ok := idOf[tipHash]; ok {
		fin.Tip = t
	} else {
		fin.Tip = -1
	}
	height := repo.Height()
	var prev *bitcoin.Hash32
	total := 0
	for h := base; h <= height; h++ {
		hh, err := repo.Hash(ctx, h)
		if err != nil {
			fin.Problem = fmt.Sprintf("Hash(%d): %v", h, err)
			fin.LinkOK = false
			break
		}
		b, ok := idOf[*hh]
		if !ok {
			b = -1
		}
		fin.Chain = append(fin.Chain, b)
		if b > 0 {
			total += pool.Work[b-1]
			if prev != nil && !hdr[b].PrevBlock.Equal(prev) {
				fin.LinkOK = false
			}
		}
		prev = hh
	}
	want := new(big.Int).Set(rootWork)
	want.Add(want, new(big.Int).Mul(w.unit, big.NewInt(int64(total))))
	if repo.AccumulatedWork().Cmp(want) != 0 {
		fin.WorkOK = false
	}
	for b := 1; b <= N; b++ {
		_, best, err := repo.CheckHeader(ctx, hash[b])
		if err == nil {
			fin.Known = append(fin.Known, b)
			if best {
				fin.Best = append(fin.Best, b)
			}
		}
	}
	if w.stall {
		fin.Recon = []int{-2}
		if lastRound {
			// the subscriber has caught up: what it holds is the reported chain
			if !w.reconOK {
				fin.StreamOK = false
				fin.Problem = "the subscriber could not attach an announced header"
			} else if len(w.recon) != height+1 {
				fin.StreamOK = false
				fin.Problem = fmt.Sprintf("the caught-up subscriber holds a chain of height %d, the repository reports %d", len(w.recon)-1, height)
			} else {
				for h := 0; h <= height; h++ {
					hh, err := repo.Hash(ctx, h)
					if err != nil || !hh.Equal(&w.recon[h]) {
						fin.StreamOK = false
						fin.Problem = fmt.Sprintf("the caught-up subscriber's chain differs from the reported chain at height %d", h)
						break
					}
				}
			}
		}
	} else if !w.reconOK || len(w.recon) <= reconBase {
		fin.Recon = []int{-1}
	} else {
		for _, h := range w.recon[reconBase:] {
			b, ok := idOf[h]
			if !ok {
				b = -1
			}
			fin.Recon = append(fin.Recon, b)
		}
	}
	tr.Final = fin
	return tr
}
