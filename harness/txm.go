package main

// txm: replay of TxManagerGen behaviours (spec -> code) on the real TxManager, and a concurrent
// driver (txmc) whose recorded rounds are linearized by TLC (code -> spec).

import (
	"context"
	"encoding/json"
	"flag"
	"fmt"
	"math/rand"
	"os"
	"runtime"
	"sort"
	"sync"
	"sync/atomic"
	"time"

	"github.com/google/uuid"
	bitcoin_reader "github.com/tokenized/bitcoin_reader"
	"github.com/tokenized/logger"
	"github.com/tokenized/pkg/bitcoin"
	"github.com/tokenized/pkg/merkle_proof"
	"github.com/tokenized/pkg/wire"
)

func init() {
	subcommands["txm"] = txmMain
	subcommands["txmc"] = txmcMain
}

type txmRec struct {
	Op        string         `json:"op"`
	N         string         `json:"n"`
	T         string         `json:"t"`
	Req       bool           `json:"req"`
	Txs       []string       `json:"txs"`
	Forwarded map[string]int `json:"forwarded"`
}

type txmBeh struct {
	Ops []txmRec `json:"ops"`
}

// countingProcessor is the TxProcessor / TxSaver behind TxManager.Run.
type countingProcessor struct {
	gate      chan struct{} // if set: the first ProcessTx waits until it is closed (a processor slower than the peer)
	mu        sync.Mutex
	cond      *sync.Cond
	processed map[bitcoin.Hash32]int
	saved     map[bitcoin.Hash32]int
	total     int
	relevant  map[bitcoin.Hash32]bool
}

func newCountingProcessor() *countingProcessor {
	p := &countingProcessor{processed: map[bitcoin.Hash32]int{}, saved: map[bitcoin.Hash32]int{},
		relevant: map[bitcoin.Hash32]bool{}}
	p.cond = sync.NewCond(&p.mu)
	return p
}

func (p *countingProcessor) ProcessTx(ctx context.Context, tx *wire.MsgTx) (bool, error) {
	if p.gate != nil {
		<-p.gate
	}
	p.mu.Lock()
	defer p.mu.Unlock()
	h := *tx.TxHash()
	p.processed[h]++
	p.total++
	p.cond.Broadcast()
	return p.relevant[h], nil
}
func (p *countingProcessor) CancelTx(ctx context.Context, txid bitcoin.Hash32) error { return nil }
func (p *countingProcessor) AddTxConflict(ctx context.Context, txid, c bitcoin.Hash32) error {
	return nil
}
func (p *countingProcessor) ConfirmTx(ctx context.Context, txid bitcoin.Hash32, h int,
	mp *merkle_proof.MerkleProof) error {
	return nil
}
func (p *countingProcessor) UpdateTxChainDepth(ctx context.Context, txid bitcoin.Hash32, d uint32) error {
	return nil
}
func (p *countingProcessor) ProcessCoinbaseTx(ctx context.Context, bh bitcoin.Hash32, tx *wire.MsgTx) error {
	return nil
}
func (p *countingProcessor) SaveTx(ctx context.Context, tx *wire.MsgTx) error {
	p.mu.Lock()
	defer p.mu.Unlock()
	p.saved[*tx.TxHash()]++
	return nil
}

// waitTotal waits until at least n transactions were processed.
func (p *countingProcessor) waitTotal(n int, d time.Duration) bool {
	deadline := time.Now().Add(d)
	p.mu.Lock()
	defer p.mu.Unlock()
	for p.total < n {
		if time.Now().After(deadline) {
			return false
		}
		p.mu.Unlock()
		time.Sleep(50 * time.Microsecond)
		p.mu.Lock()
	}
	return true
}

// mkTx returns the i-th test transaction. All of them have the same first txid byte, i.e. they
// share one of the 256 internal maps of the TxManager, so that limits applied per map matter.
var (
	txPoolOnce sync.Once
	txPool     []*wire.MsgTx
)

func mkTx(i int) *wire.MsgTx {
	txPoolOnce.Do(func() {
		for lt := uint32(1000); len(txPool) < 16; lt++ {
			tx := wire.NewMsgTx(1)
			tx.LockTime = lt
			if tx.TxHash()[0] == 0x42 {
				txPool = append(txPool, tx)
			}
		}
	})
	c := txPool[i-1].Copy()
	return &c
}

type txmWorld struct {
	m       *bitcoin_reader.TxManager
	p       *countingProcessor
	nodes   map[string]uuid.UUID
	txs     map[string]*wire.MsgTx
	done    chan error
	ctx     context.Context
	intr    chan interface{}
	timeout time.Duration
}

func newTxmWorld() *txmWorld {
	w := &txmWorld{nodes: map[string]uuid.UUID{}, txs: map[string]*wire.MsgTx{}, timeout: time.Hour}
	w.ctx = logger.ContextWithNoLogger(context.Background())
	w.m = bitcoin_reader.NewTxManager(w.timeout)
	w.p = newCountingProcessor()
	w.m.SetTxProcessor(w.p)
	w.m.SetTxSaver(w.p)
	w.done = make(chan error, 1)
	w.intr = make(chan interface{})
	go func() { w.done <- w.m.Run(w.ctx) }()
	return w
}

func (w *txmWorld) node(n string) uuid.UUID {
	if id, ok := w.nodes[n]; ok {
		return id
	}
	id := uuid.New()
	w.nodes[n] = id
	return id
}

func (w *txmWorld) tx(t string) *wire.MsgTx {
	if tx, ok := w.txs[t]; ok {
		return tx
	}
	tx := mkTx(len(w.txs) + 1)
	w.txs[t] = tx
	// the first transaction is "relevant": it must be saved exactly once too
	if t == "t1" {
		w.p.relevant[*tx.TxHash()] = true
	}
	return tx
}

func (w *txmWorld) nameOf(h bitcoin.Hash32) string {
	for k, tx := range w.txs {
		if tx.TxHash().Equal(&h) {
			return k
		}
	}
	return "?"
}

func (w *txmWorld) finish() (map[string]int, map[string]int, bool) {
	w.m.Stop(w.ctx)
	ok := true
	select {
	case <-w.done:
	case <-time.After(5 * time.Second):
		ok = false
	}
	w.p.mu.Lock()
	defer w.p.mu.Unlock()
	pr, sv := map[string]int{}, map[string]int{}
	for k, tx := range w.txs {
		pr[k] = w.p.processed[*tx.TxHash()]
		sv[k] = w.p.saved[*tx.TxHash()]
	}
	return pr, sv, ok
}

type txmDiv struct {
	Beh  int    `json:"beh"`
	Step int    `json:"step"`
	Msg  string `json:"msg"`
	Sig  string `json:"sig"`
}

func txmRunOne(idx int, beh *txmBeh) *txmDiv {
	w := newTxmWorld()
	for _, t := range []string{"t1", "t2", "t3", "t4"} {
		w.tx(t)
	}
	fail := func(step int, msg string) *txmDiv {
		w.finish()
		return &txmDiv{Beh: idx, Step: step, Msg: msg, Sig: denum(msg)}
	}
	var last map[string]int
	for step, op := range beh.Ops {
		switch op.Op {
		case "announce":
			got, err := w.m.AddTxID(w.ctx, w.node(op.N), *w.tx(op.T).TxHash())
			if err != nil {
				return fail(step, "AddTxID error "+err.Error())
			}
			if got != op.Req {
				return fail(step, fmt.Sprintf("AddTxID(%s,%s) returned request=%v, spec says %v", op.N, op.T, got, op.Req))
			}
		case "deliver":
			if err := w.m.AddTx(w.ctx, w.intr, w.node(op.N), w.tx(op.T)); err != nil {
				return fail(step, "AddTx error "+err.Error())
			}
		case "poll":
			got, err := w.m.GetTxRequests(w.ctx, w.node(op.N), 10000)
			if err != nil {
				return fail(step, "GetTxRequests error "+err.Error())
			}
			var names []string
			for _, h := range got {
				names = append(names, w.nameOf(h))
			}
			sort.Strings(names)
			want := append([]string{}, op.Txs...)
			sort.Strings(want)
			if fmt.Sprint(names) != fmt.Sprint(want) {
				return fail(step, fmt.Sprintf("GetTxRequests(%s) returned %v, spec says %v", op.N, names, want))
			}
		case "tick":
			w.m.VerifAgeRequests(w.timeout)
		case "clean":
			// a cut-off after everything the manager holds: the processor has to have taken what was queued for
			// it first (Clean and the hand-over are not ordered otherwise)
			if err := w.m.Clean(w.ctx, time.Now().Add(time.Hour)); err != nil {
				return fail(step, "Clean error "+err.Error())
			}
		}
		total := 0
		for _, v := range op.Forwarded {
			total += v
		}
		if !w.p.waitTotal(total, 3*time.Second) {
			return fail(step, fmt.Sprintf("transaction not handed to the processor after %s(%s,%s): expected %v", op.Op, op.N, op.T, op.Forwarded))
		}
		last = op.Forwarded
	}
	pr, sv, ok := w.finish()
	if !ok {
		return &txmDiv{Beh: idx, Step: len(beh.Ops), Msg: "TxManager.Run did not return after Stop", Sig: "run did not return"}
	}
	for t, want := range last {
		if pr[t] != want {
			return &txmDiv{Beh: idx, Step: len(beh.Ops), Msg: fmt.Sprintf("transaction %s processed %d times, spec says %d", t, pr[t], want), Sig: "processed # times"}
		}
		wantSaved := 0
		if t == "t1" {
			wantSaved = want
		}
		if sv[t] != wantSaved {
			return &txmDiv{Beh: idx, Step: len(beh.Ops), Msg: fmt.Sprintf("transaction %s saved %d times, spec says %d", t, sv[t], wantSaved), Sig: "saved # times"}
		}
	}
	return nil
}

func txmMain(args []string) int {
	fs := flag.NewFlagSet("txm", flag.ExitOnError)
	in := fs.String("in", "", "behaviours (TLC output or jsonl); stdin if empty")
	workers := fs.Int("workers", 16, "workers")
	fs.Parse(args)
	type job struct {
		idx  int
		line string
	}
	jobs := make(chan job, 256)
	var mu sync.Mutex
	divs := []*txmDiv{}
	sigs := map[string]int{}
	n, steps := 0, 0
	opkinds := map[string]int{}
	var sample []string
	var wg sync.WaitGroup
	for i := 0; i < *workers; i++ {
		wg.Add(1)
		go func() {
			defer wg.Done()
			for j := range jobs {
				var beh txmBeh
				if err := json.Unmarshal([]byte(j.line), &beh); err != nil {
					continue
				}
				d := txmRunOne(j.idx, &beh)
				mu.Lock()
				n++
				steps += len(beh.Ops)
				for _, o := range beh.Ops {
					opkinds[o.Op]++
				}
				if len(sample) < 3 && j.idx%977 == 5 {
					sample = append(sample, j.line)
				}
				if d != nil {
					sigs[d.Sig]++
					if len(divs) < 100 {
						divs = append(divs, d)
					}
				}
				mu.Unlock()
			}
		}()
	}
	lines := map[int]string{}
	err := behaviourLines(*in, "BEH", func(idx int, line string) {
		if idx < 2000 {
			lines[idx] = line
		}
		jobs <- job{idx, line}
	})
	close(jobs)
	wg.Wait()
	if err != nil {
		fmt.Fprintln(os.Stderr, err)
		return 2
	}
	for _, d := range divs {
		_ = d
	}
	out := map[string]interface{}{"behaviours": n, "steps": steps, "ops": opkinds, "divergences": divs,
		"signatures": sigs, "samples": sample}
	// attach the behaviour text of the first divergences for the replay file
	var divBeh []string
	for _, d := range divs {
		if l, ok := lines[d.Beh]; ok && len(divBeh) < 5 {
			divBeh = append(divBeh, l)
		}
	}
	out["diverging_behaviours"] = divBeh
	json.NewEncoder(os.Stdout).Encode(out)
	return 0
}

// ---------------------------------------------------------------------------- concurrent driver

type txmcCall struct {
	Max int      `json:"max"`
	Op  string   `json:"op"`
	N   string   `json:"n"`
	T   string   `json:"t"`
	Req bool     `json:"req"`
	Txs []string `json:"txs"`
}

// One round = calls issued concurrently by different goroutines between two barriers.
type txmcRound struct {
	Calls []txmcCall `json:"calls"`
}

type txmcTrace struct {
	ID        int            `json:"id"`
	Rounds    []txmcRound    `json:"rounds"`
	Processed map[string]int `json:"processed"`
	Saved     map[string]int `json:"saved"`
	RunOK     bool           `json:"runok"`
}

// txmBacklog: the tx processor is slower than the peers, so the manager's queue to it (1000 entries) is full
// and hand-overs have to wait - then two peers deliver the same transaction at the same moment, then the
// processor catches up.  Exactly one hand-over per transaction (C06), and nothing stays blocked.
func txmBacklog(seed int64) string {
	rng := rand.New(rand.NewSource(seed))
	w := newTxmWorld()
	w.p.gate = make(chan struct{})
	a, b := w.node("n1"), w.node("n2")
	hot := w.tx("t1") // relevant: must be saved exactly once too
	other := w.tx("t2")
	if rng.Intn(2) == 0 {
		// announced first (solicited delivery), by one or both peers
		w.m.AddTxID(w.ctx, a, *hot.TxHash())
		if rng.Intn(2) == 0 {
			w.m.AddTxID(w.ctx, b, *hot.TxHash())
		}
	}
	var added int32
	floodDone := make(chan struct{})
	c := w.node("n3")
	go func() {
		defer close(floodDone)
		for i := 0; i < 1003; i++ {
			ftx := wire.NewMsgTx(1)
			ftx.LockTime = uint32(900000 + i)
			w.m.AddTx(w.ctx, w.intr, c, ftx)
			atomic.AddInt32(&added, 1)
		}
	}()
	// the flood stalls when the queue is full
	last, stable := int32(-1), 0
	for stable < 10 {
		time.Sleep(2 * time.Millisecond)
		if n := atomic.LoadInt32(&added); n != last {
			last, stable = n, 0
		} else {
			stable++
		}
	}
	var wg sync.WaitGroup
	for _, n := range []uuid.UUID{a, b, a} {
		wg.Add(1)
		go func(n uuid.UUID) {
			defer wg.Done()
			time.Sleep(time.Duration(rng.Intn(200)) * time.Microsecond)
			w.m.AddTx(w.ctx, w.intr, n, hot)
		}(n)
	}
	wg.Add(1)
	go func() { defer wg.Done(); w.m.AddTx(w.ctx, w.intr, b, other) }()
	time.Sleep(time.Duration(2+rng.Intn(6)) * time.Millisecond)
	close(w.p.gate)
	finished := make(chan struct{})
	go func() { wg.Wait(); <-floodDone; close(finished) }()
	select {
	case <-finished:
	case <-time.After(10 * time.Second):
		return "deliveries are still blocked 10 s after the tx processor caught up"
	}
	w.p.waitTotal(1003+2, 5*time.Second)
	pr, sv, ok := w.finish()
	if !ok {
		return "the tx manager's Run did not end cleanly"
	}
	if pr["t1"] != 1 || pr["t2"] != 1 || sv["t1"] != 1 {
		return fmt.Sprintf("processor queue full while two peers deliver the same transaction: processed %v saved %v, want each once (t1 also saved once)", pr, sv)
	}
	return ""
}

// txmSimultaneous: several peers deliver the same transaction, which nobody announced, at the same instant
// (goroutines released together), thousands of times.  Each transaction reaches the processor once.
func txmSimultaneous(seed int64, rounds int) string {
	w := newTxmWorld()
	nodes := []uuid.UUID{w.node("n1"), w.node("n2"), w.node("n3"), w.node("n4")}
	txs := make([]*wire.MsgTx, rounds)
	for r := range txs {
		tx := wire.NewMsgTx(1)
		tx.LockTime = uint32(300000 + r)
		txs[r] = tx
		if r%3 == 0 {
			w.p.mu.Lock()
			w.p.relevant[*tx.TxHash()] = true
			w.p.mu.Unlock()
		}
	}
	for r := 0; r < rounds; r++ {
		var goFlag, ready int32
		var wg sync.WaitGroup
		for _, n := range nodes {
			wg.Add(1)
			go func(n uuid.UUID) {
				defer wg.Done()
				atomic.AddInt32(&ready, 1)
				for atomic.LoadInt32(&goFlag) == 0 {
				}
				w.m.AddTx(w.ctx, w.intr, n, txs[r])
			}(n)
		}
		for atomic.LoadInt32(&ready) < int32(len(nodes)) {
			runtime.Gosched()
		}
		atomic.StoreInt32(&goFlag, 1)
		wg.Wait()
	}
	w.p.waitTotal(rounds, 5*time.Second)
	time.Sleep(2 * time.Millisecond)
	w.finish()
	w.p.mu.Lock()
	defer w.p.mu.Unlock()
	twice, savedWrong := 0, 0
	for r, tx := range txs {
		h := *tx.TxHash()
		if w.p.processed[h] != 1 {
			twice++
		}
		want := 0
		if r%3 == 0 {
			want = 1
		}
		if w.p.saved[h] != want {
			savedWrong++
		}
	}
	if twice > 0 || savedWrong > 0 {
		return fmt.Sprintf("the same unannounced transaction delivered by 4 peers at the same instant: %d of %d transactions did not reach the processor exactly once, %d were not saved exactly as often as they are relevant", twice, rounds, savedWrong)
	}
	return ""
}

// txmAllBuckets: the manager keeps its transactions in 256 buckets by the first byte of the txid.  Several connections
// poll for retries at the same time for a while (the node manager's periodic RequestTxs and a node's own poll can
// overlap); afterwards one transaction per bucket is announced by two peers, the request to the first one times out,
// and the second announcer's poll must offer every one of them (TxManager.tla: Requestable), whatever its bucket.
func txmAllBuckets(seed int64) string {
	w := newTxmWorld()
	pollers := []uuid.UUID{w.node("p1"), w.node("p2"), w.node("p3"), w.node("p4")}
	stop := make(chan struct{})
	var wg sync.WaitGroup
	for k := 0; k < 12; k++ {
		wg.Add(1)
		go func(k int) {
			defer wg.Done()
			for {
				select {
				case <-stop:
					return
				default:
				}
				w.m.GetTxRequests(w.ctx, pollers[k%len(pollers)], 50)
			}
		}(k)
	}
	time.Sleep(60 * time.Millisecond)
	close(stop)
	wg.Wait()
	a, b := w.node("n1"), w.node("n2")
	ids := map[byte]bitcoin.Hash32{}
	for i := 0; len(ids) < 256 && i < 200000; i++ {
		tx := wire.NewMsgTx(1)
		tx.LockTime = uint32(seed%1000)*1000000 + uint32(i)
		h := *tx.TxHash()
		if _, ok := ids[h[0]]; !ok {
			ids[h[0]] = h
		}
	}
	if len(ids) != 256 {
		return "harness: could not build one txid per bucket"
	}
	for _, h := range ids {
		if first, _ := w.m.AddTxID(w.ctx, a, h); !first {
			return "harness: a fresh txid was not new to the manager"
		}
		w.m.AddTxID(w.ctx, b, h)
	}
	w.m.VerifAgeRequests(2 * w.timeout)
	got, err := w.m.GetTxRequests(w.ctx, b, 100000)
	if err != nil {
		return "harness: poll failed: " + err.Error()
	}
	have := map[bitcoin.Hash32]bool{}
	for _, h := range got {
		have[h] = true
	}
	var missing []int
	for first, h := range ids {
		if !have[h] {
			missing = append(missing, int(first))
		}
	}
	w.finish()
	if len(missing) > 0 {
		sort.Ints(missing)
		return fmt.Sprintf("after the request timed out the second announcer's poll does not offer %d of 256 undelivered transactions (txid first bytes %v) - concurrent polls ran before", len(missing), missing)
	}
	return ""
}

func txmcMain(args []string) int {
	fs := flag.NewFlagSet("txmc", flag.ExitOnError)
	seed := fs.Int64("seed", 1, "seed")
	traces := fs.Int("traces", 200, "number of traces")
	rounds := fs.Int("rounds", 8, "rounds per trace")
	par := fs.Int("par", 3, "concurrent calls per round")
	nnodes := fs.Int("nodes", 3, "nodes")
	ntxs := fs.Int("txs", 2, "transactions")
	out := fs.String("out", "", "output ndjson")
	retry := fs.Bool("retry", false, "phased traces that exercise retry polls with small limits")
	backlog := fs.Int("backlog", 0, "instead: this many backlog scenarios (full processor queue); prints one JSON object")
	fs.Parse(args)
	if *backlog > 0 {
		problems := map[string]int{}
		for i := 0; i < *backlog; i++ {
			if m := txmBacklog(*seed*7919 + int64(i)); m != "" {
				problems[m]++
			}
		}
		rounds := 400 * *backlog
		if m := txmSimultaneous(*seed, rounds); m != "" {
			problems[m]++
		}
		for i := 0; i < 3; i++ {
			if m := txmAllBuckets(*seed*31 + int64(i)); m != "" {
				problems[m]++
			}
		}
		json.NewEncoder(os.Stdout).Encode(map[string]interface{}{"scenarios": *backlog, "simultaneous_rounds": rounds, "problems": problems})
		return 0
	}
	rng := rand.New(rand.NewSource(*seed))
	f := os.Stdout
	if *out != "" {
		var err error
		f, err = os.Create(*out)
		if err != nil {
			fmt.Fprintln(os.Stderr, err)
			return 2
		}
		defer f.Close()
	}
	enc := json.NewEncoder(f)
	for id := 0; id < *traces; id++ {
		w := newTxmWorld()
		var txNames, nodeNames []string
		for i := 1; i <= *ntxs; i++ {
			txNames = append(txNames, fmt.Sprintf("t%d", i))
			w.tx(txNames[i-1])
		}
		for i := 1; i <= *nnodes; i++ {
			nodeNames = append(nodeNames, fmt.Sprintf("n%d", i))
			w.node(nodeNames[i-1])
		}
		tr := txmcTrace{ID: id}
		for r := 0; r < *rounds; r++ {
			// phased mode: announcements by several peers, a timeout, retry polls with small limits,
			// another timeout, polls and deliveries
			phase := -1
			if *retry {
				phase = r * 5 / *rounds
			}
			if (phase == 1 || phase == 3) && r*5%*rounds < 5 {
				w.m.VerifAgeRequests(w.timeout)
				tr.Rounds = append(tr.Rounds, txmcRound{Calls: []txmcCall{{Op: "tick", Txs: []string{}}}})
				continue
			}
			// occasionally a tick round (sequential)
			if phase == -1 && rng.Intn(4) == 0 {
				w.m.VerifAgeRequests(w.timeout)
				tr.Rounds = append(tr.Rounds, txmcRound{Calls: []txmcCall{{Op: "tick", Txs: []string{}}}})
				continue
			}
			k := 1 + rng.Intn(*par)
			calls := make([]txmcCall, k)
			hot := txNames[rng.Intn(len(txNames))] // the same transaction from several peers at once
			for i := range calls {
				c := &calls[i]
				c.N = nodeNames[rng.Intn(len(nodeNames))]
				c.T = hot
				if rng.Intn(4) == 0 {
					c.T = txNames[rng.Intn(len(txNames))]
				}
				pick := rng.Intn(5)
				switch phase {
				case 0:
					pick = 0
					c.T = txNames[rng.Intn(len(txNames))]
				case 1, 2, 3:
					pick = []int{4, 4, 4, 0, 2}[rng.Intn(5)]
				}
				switch pick {
				case 0, 1:
					c.Op = "announce"
				case 2, 3:
					c.Op = "deliver"
				default:
					c.Op = "poll"
					c.T = ""
					c.Max = []int{1, 2, 10000}[rng.Intn(3)]
				}
			}
			var start sync.WaitGroup
			var done sync.WaitGroup
			start.Add(1)
			var ready int32
			for i := range calls {
				done.Add(1)
				go func(c *txmcCall) {
					defer done.Done()
					atomic.AddInt32(&ready, 1)
					start.Wait()
					switch c.Op {
					case "announce":
						c.Req, _ = w.m.AddTxID(w.ctx, w.nodes[c.N], *w.txs[c.T].TxHash())
					case "deliver":
						w.m.AddTx(w.ctx, w.intr, w.nodes[c.N], w.txs[c.T])
					case "poll":
						got, _ := w.m.GetTxRequests(w.ctx, w.nodes[c.N], c.Max)
						c.Txs = []string{}
						for _, h := range got {
							c.Txs = append(c.Txs, w.nameOf(h))
						}
						sort.Strings(c.Txs)
					}
				}(&calls[i])
			}
			for atomic.LoadInt32(&ready) < int32(k) {
				time.Sleep(time.Microsecond)
			}
			start.Done()
			done.Wait()
			for i := range calls {
				if calls[i].Txs == nil {
					calls[i].Txs = []string{}
				}
			}
			tr.Rounds = append(tr.Rounds, txmcRound{Calls: calls})
		}
		// everything delivered must reach the processor before Stop
		time.Sleep(200 * time.Microsecond)
		delivered := map[string]bool{}
		for _, r := range tr.Rounds {
			for _, c := range r.Calls {
				if c.Op == "deliver" {
					delivered[c.T] = true
				}
			}
		}
		w.p.waitTotal(len(delivered), 3*time.Second)
		pr, sv, ok := w.finish()
		tr.Processed, tr.Saved, tr.RunOK = pr, sv, ok
		enc.Encode(tr)
	}
	return 0
}
