package main

// bdn: the node-side window of C16 on the real BitcoinNode. A scripted peer completes the handshake
// over net.Pipe, a real BlockDownloader requests a block from the real node, and the peer delivers
// the block message in pieces while Cancel, peer disconnection and interrupt are issued at
// seed-chosen points with seed-chosen delays (including between the bytes of the tx count). The
// oracle is the set of properties TLC checks on BlockDownload.tla: Run returns, nothing stays
// blocked, a nil result only after the complete block was handled.

import (
	"bytes"
	"context"
	"encoding/json"
	"flag"
	"fmt"
	"math/rand"
	"os"
	"runtime"
	"sync"
	"sync/atomic"
	"time"

	"github.com/google/uuid"
	"github.com/pkg/errors"
	bitcoin_reader "github.com/tokenized/bitcoin_reader"
	"github.com/tokenized/pkg/bitcoin"
	"github.com/tokenized/pkg/wire"
	"github.com/tokenized/threads"
)

func init() { subcommands["bdn"] = bdnMain }

type bdnResult struct {
	Scenario string   `json:"scenario"`
	Trace    []string `json:"trace"`
	Msg      string   `json:"msg"`
	Known    string   `json:"known"`
}

type slowCanceller struct {
	node  *bitcoin_reader.BitcoinNode
	delay time.Duration
}

func (c *slowCanceller) ID() uuid.UUID { return c.node.ID() }
func (c *slowCanceller) CancelBlockRequest(ctx context.Context, hash bitcoin.Hash32) bool {
	time.Sleep(c.delay)
	return c.node.CancelBlockRequest(ctx, hash)
}

func bdnOne(seed int64, mode string) bdnResult {
	rng := rand.New(rand.NewSource(seed))
	res := bdnResult{Scenario: mode}
	beh := &sessBeh{TxMgr: false}
	s := newSession(beh, seed, false)
	defer s.close()
	init := map[string]int{}
	deadline := time.Now().Add(10 * time.Second)
	for (init["version"] == 0 || !s.gotPing) && time.Now().Before(deadline) {
		s.collect(0, 20*time.Millisecond, init)
	}
	step := func(class string) bool {
		if !s.write(s.build(class), 10*time.Second) {
			return false
		}
		n := s.rng.Uint64()
		if !s.write(wireMessage(wire.NewMsgPing(n)), 10*time.Second) {
			return false
		}
		out := map[string]int{}
		pong, _ := s.collect(n, 10*time.Second, out)
		return pong
	}
	if !step("version") || !step("verack") {
		res.Msg = "harness: handshake failed"
		return res
	}
	if !s.awaitCmd("getheaders", 1, 10*time.Second) {
		res.Msg = "harness: the node did not ask its verification question"
		return res
	}
	verified := step("hdrBSV")
	for w := time.Now().Add(5 * time.Second); verified && !s.node.IsReady() && time.Now().Before(w); {
		time.Sleep(time.Millisecond) // the ready flag is set by the handshake goroutine
	}
	if !verified || !s.node.IsReady() {
		res.Msg = "harness: node not ready after verification"
		return res
	}

	// the block
	// small blocks with a one byte tx count, or 253+ transactions so that the count is three bytes
	// (a canonical varint) and there is a gap inside it
	ntx := 1 + rng.Intn(4)
	if rng.Intn(4) == 0 {
		ntx = 253 + rng.Intn(3)
	}
	if mode == "backlog" {
		// more transactions than the hand-over channel between the node and the handler holds (1000), and a
		// processor slower than the peer: the node waits on the full channel when the download ends
		ntx = 1050 + rng.Intn(300)
	}
	txOf := func(i int) *wire.MsgTx {
		if i <= 16 {
			return bvTx(i)
		}
		tx := wire.NewMsgTx(1)
		tx.LockTime = uint32(9000 + i)
		return tx
	}
	var ids []bitcoin.Hash32
	for i := 1; i <= ntx; i++ {
		ids = append(ids, *txOf(i).TxHash())
	}
	header := &wire.BlockHeader{Version: 1, Timestamp: 1600000000, Bits: 0x1d00ffff, Nonce: uint32(seed),
		MerkleRoot: merkleRoot(ids)}
	hash := *header.BlockHash()
	proc := newCountingProcessor()
	if mode == "backlog" {
		proc.gate = make(chan struct{})
	}
	bd := bitcoin_reader.NewBlockDownloader(proc, bitcoin_reader.NewMockBlockTxManager(), hash, 500)
	if err := s.node.RequestBlock(s.ctx, hash, bd.HandleBlock, bd.Stop); err != nil {
		res.Msg = "harness: RequestBlock: " + err.Error()
		return res
	}
	if mode == "dropcancel" {
		// the node answers the cancel a moment late (it is busy): the window in which the downloader holds its state
		// lock and waits for the node is a few hundred microseconds instead of a few instructions
		bd.SetCanceller(s.node.ID(), &slowCanceller{node: s.node, delay: time.Duration(50+rng.Intn(400)) * time.Microsecond})
	} else {
		bd.SetCanceller(s.node.ID(), s.node)
	}
	intr := make(chan interface{})
	runDone := make(chan error, 1)
	go func() { runDone <- bd.Run(s.ctx, intr) }()

	// the message in pieces: a multi-byte tx count (0xfd + uint16) so that there is a gap inside it
	var payload bytes.Buffer
	header.Serialize(&payload)
	cut := []int{24 + 80}
	names := []string{"header"}
	if ntx < 253 {
		payload.Write([]byte{byte(ntx)})
		cut = append(cut, 24+80+1)
		names = append(names, "count")
	} else {
		payload.Write([]byte{0xfd, byte(ntx), byte(ntx >> 8)})
		cut = append(cut, 24+80+1, 24+80+3)
		names = append(names, "count[0]", "count[1:]")
	}
	firstTx := len(names)
	for i := 1; i <= ntx; i++ {
		txOf(i).Serialize(&payload)
		if i <= 3 || i == ntx || (mode == "backlog" && i%50 == 0) {
			cut = append(cut, 24+payload.Len())
			names = append(names, fmt.Sprintf("..tx%d", i))
		}
	}
	msg := rawMessage("block", payload.Bytes())
	var chunks [][]byte
	prev := 0
	for _, c := range cut {
		chunks = append(chunks, msg[prev:c])
		prev = c
	}

	// schedule
	type ev struct {
		kind string
		at   int // before chunk index `at`
	}
	var term ev
	switch mode {
	case "cancel":
		term = ev{"cancel", rng.Intn(len(chunks) + 1)}
	case "peerdrop":
		term = ev{"peerdrop", rng.Intn(len(chunks) + 1)}
	case "interrupt":
		term = ev{"interrupt", rng.Intn(len(chunks) + 1)}
	case "dropcancel":
		// the peer drops and the manager cancels at the same moment
		term = ev{"dropcancel", rng.Intn(len(chunks) + 1)}
	case "complete":
		term = ev{"none", -1}
	case "silent":
		// cancel once the handler has started, then the peer says nothing for a while
		term = ev{"cancel", firstTx + rng.Intn(len(chunks)-firstTx+1)}
	case "backlog":
		// issued when the node has stopped taking bytes because the hand-over channel is full
		term = ev{[]string{"cancel", "peerdrop", "interrupt", "none"}[rng.Intn(4)], -2}
	}
	cancelDone := make(chan struct{})
	cancelIssued := false
	var cancelAt time.Time
	dropped := false
	var wg sync.WaitGroup
	issue := func() {
		switch term.kind {
		case "cancel":
			cancelIssued = true
			cancelAt = time.Now()
			wg.Add(1)
			go func() { defer wg.Done(); bd.Cancel(s.ctx); close(cancelDone) }()
		case "dropcancel":
			cancelIssued = true
			cancelAt = time.Now()
			dropped = true
			wg.Add(1)
			go func() { defer wg.Done(); bd.Cancel(s.ctx); close(cancelDone) }()
			for spin := rng.Intn(200); spin > 0; spin-- {
				runtime.Gosched()
			}
			s.conn.Close()
		case "peerdrop":
			dropped = true
			s.conn.Close()
		case "interrupt":
			close(intr)
		}
		res.Trace = append(res.Trace, term.kind)
	}
	jitter := func() {
		if d := rng.Intn(4); d > 0 {
			time.Sleep(time.Duration(rng.Intn(300)) * time.Microsecond)
		}
	}
	if mode == "backlog" {
		// the whole message is written by a goroutine; the node stops taking bytes once the hand-over channel
		// is full (the processor is held): that is the moment at which the download is ended
		var written int32
		writerDone := make(chan bool, 1)
		go func() {
			for _, c := range chunks {
				s.conn.SetWriteDeadline(time.Now().Add(20 * time.Second))
				if _, err := s.conn.Write(c); err != nil {
					writerDone <- false
					return
				}
				atomic.AddInt32(&written, 1)
			}
			writerDone <- true
		}()
		last, stable := int32(-1), 0
		finished := false
		for stable < 20 && !finished {
			select {
			case <-writerDone:
				finished = true
			case <-time.After(5 * time.Millisecond):
			}
			if w := atomic.LoadInt32(&written); w != last {
				last, stable = w, 0
			} else {
				stable++
			}
		}
		if finished {
			res.Trace = append(res.Trace, "the whole block was taken without a stall")
		} else {
			res.Trace = append(res.Trace, fmt.Sprintf("stalled after %s", names[last-1+0]))
		}
		if term.kind != "none" {
			issue()
			jitter()
		}
		close(proc.gate)
		if !finished {
			select {
			case <-writerDone:
			case <-time.After(10 * time.Second):
				if !dropped {
					res.Msg = "the node never took the rest of the block message after the download ended (blocked handing a transaction over?)"
				}
				s.conn.Close()
				dropped = true
			}
		}
		chunks = nil
	}
	for i, c := range chunks {
		if term.at == i {
			issue()
			jitter()
			if mode == "silent" {
				// the peer is silent: Cancel must return and Run must end without the peer's help
				select {
				case <-cancelDone:
				case <-time.After(700 * time.Millisecond):
					res.Known = "Cancel of a started block download blocks while the peer is silent (ReadCloser.Close waits for the read in flight)"
				}
				if res.Known == "" {
					select {
					case err := <-runDone:
						runDone <- err
					case <-time.After(700 * time.Millisecond):
						res.Known = "Run does not return after Cancel of a started block download while the peer is silent"
					}
				}
			}
		}
		if dropped {
			break
		}
		if !s.write(c, 2*time.Second) {
			if !cancelIssued && term.kind != "interrupt" {
				res.Msg = fmt.Sprintf("node stopped reading at %s", names[i])
			}
			break
		}
		res.Trace = append(res.Trace, names[i])
		jitter()
	}
	if term.at == len(chunks) && mode != "backlog" {
		issue()
	}

	// ---- oracle
	var runErr error
	select {
	case runErr = <-runDone:
	case <-time.After(4 * time.Second):
		if term.kind == "none" || term.kind == "cancel" || term.kind == "peerdrop" || term.kind == "interrupt" || term.kind == "dropcancel" {
			res.Msg = fmt.Sprintf("Run did not return within 4 s after the complete stream / %s (trace %v)", term.kind, res.Trace)
		}
		if term.kind != "interrupt" {
			close(intr)
		}
		return res
	}
	_ = cancelAt
	if cancelIssued {
		select {
		case <-cancelDone:
		case <-time.After(3 * time.Second):
			res.Msg = "Cancel did not return although Run did"
			return res
		}
	}
	cls := "error"
	switch {
	case runErr == nil:
		cls = "nil"
	case errors.Cause(runErr) == threads.Interrupted:
		cls = "interrupted"
	case errors.Cause(runErr).Error() == "Block Download Cancelled":
		cls = "cancelled"
	case bitcoin_reader.IsCloseError(runErr):
		cls = "closed"
	}
	proc.mu.Lock()
	processed := proc.total
	proc.mu.Unlock()
	if cls == "nil" && processed != ntx {
		res.Msg = fmt.Sprintf("Run returned nil after %d of %d transactions", processed, ntx)
	}
	if term.kind == "none" && cls != "nil" {
		res.Msg = fmt.Sprintf("complete, unfaulted block ended with %s (%v)", cls, runErr)
	}
	// the connection, if still up, must be in sync and the node free for the next request
	if !dropped && res.Msg == "" {
		n := rng.Uint64()
		out := map[string]int{}
		if s.write(wireMessage(wire.NewMsgPing(n)), 2*time.Second) {
			pong, eof := s.collect(n, 2*time.Second, out)
			if !pong && !eof {
				res.Msg = "after the block exchange the node no longer answers a ping (stream out of sync or handler stuck)"
			}
			if pong {
				deadline := time.Now().Add(time.Second)
				for s.node.IsBusy() && time.Now().Before(deadline) {
					time.Sleep(time.Millisecond)
				}
				if s.node.IsBusy() {
					res.Msg = "node still busy with the block request after the exchange ended"
				}
			}
		}
	}
	if term.kind != "interrupt" {
		close(intr)
	}
	wg.Wait()
	return res
}

func bdnMain(args []string) int {
	fs := flag.NewFlagSet("bdn", flag.ExitOnError)
	seed := fs.Int64("seed", 1, "seed")
	count := fs.Int("count", 200, "scenarios per mode")
	workers := fs.Int("workers", 8, "workers")
	fs.Parse(args)
	modes := []string{"complete", "cancel", "peerdrop", "interrupt", "silent", "backlog", "dropcancel"}
	type job struct {
		seed int64
		mode string
	}
	jobs := make(chan job, 64)
	var mu sync.Mutex
	byMode := map[string]int{}
	badCount := map[string]int{}
	var bad []bdnResult
	known := map[string]int{}
	var sample []bdnResult
	var wg sync.WaitGroup
	for i := 0; i < *workers; i++ {
		wg.Add(1)
		go func() {
			defer wg.Done()
			for j := range jobs {
				r := bdnOne(j.seed, j.mode)
				mu.Lock()
				byMode[j.mode]++
				if r.Msg != "" {
					badCount[j.mode+": "+denum(r.Msg)]++
					if len(bad) < 40 {
						bad = append(bad, r)
					}
				}
				if r.Known != "" {
					known[r.Known]++
				}
				if len(sample) < 4 && j.seed%7 == 3 {
					sample = append(sample, r)
				}
				mu.Unlock()
			}
		}()
	}
	for _, m := range modes {
		n := *count
		if m == "silent" {
			n = 6 // each costs up to 1.4 s
		}
		for i := 0; i < n; i++ {
			jobs <- job{*seed*100003 + int64(len(m))*7919 + int64(i), m}
		}
	}
	close(jobs)
	wg.Wait()
	if bad == nil {
		bad = []bdnResult{}
	}
	json.NewEncoder(os.Stdout).Encode(map[string]interface{}{"by_mode": byMode, "violations": bad, "violation_counts": badCount, "known": known, "samples": sample})
	return 0
}
