package main

// bsy: block synchronisation (C05) on the real NodeManager + BlockManager + BlockDownloader with a
// real headers.Repository and a scripted block source.
//   bsy -mode rounds  : scenarios exported by TLC from BlockSync.tla (chain length, start height,
//                       processed set) - the requests of one round must be the spec's list
//   bsy -mode traces  : seed-chosen dynamic scenarios (new headers and triggers while a round runs,
//                       block source failures, optionally a reorg of a pending block) recorded as
//                       traces for validation by TLC (specs/BlockSyncTrace.tla)
//   bsy -mode stress  : a new header and its trigger arrive just as the previous round finishes;
//                       the new tip must be processed without any further trigger

import (
	"context"
	"encoding/json"
	"flag"
	"fmt"
	"math/rand"
	"os"
	"sort"
	"sync"
	"sync/atomic"
	"time"

	"github.com/google/uuid"
	"github.com/tokenized/bitcoin_reader"
	"github.com/tokenized/bitcoin_reader/headers"
	"github.com/tokenized/config"
	"github.com/tokenized/logger"
	"github.com/tokenized/pkg/bitcoin"
	"github.com/tokenized/pkg/storage"
	"github.com/tokenized/pkg/wire"
)

func init() { subcommands["bsy"] = bsyMain }

type bsEvent struct {
	T   int64  `json:"t"` // microseconds since the world was created
	Ev  string `json:"ev"`
	H   int    `json:"h"`
	ID  int    `json:"id"`
	Set []int  `json:"set"`
	// processed events: the number of the source connection (RequestBlock call) whose download did it
	Node int `json:"node"`
}

type bsNodeKey struct{}

// bsHeaders is the header repository the node manager sees: the real repository, with one extra power -
// when armed, a new header is accepted right after LastHash() has been answered, i.e. between two reads
// of the repository by the synchronisation ("for every point at which new headers ... arrive").
type bsHeaders struct {
	*headers.Repository
	w *bsWorld
}

func (h *bsHeaders) LastHash() bitcoin.Hash32 {
	r := h.Repository.LastHash()
	if atomic.CompareAndSwapInt32(&h.w.armed, 1, 0) {
		if h.w.appendHeader() {
			atomic.AddInt32(&h.w.injected, 1)
			h.w.promptTrigger()
		}
	}
	return r
}

// When armed for it, a reorganisation lands while the synchronisation walks back from the tip: before the k-th
// read of the repository that follows (whichever read that is - the walk is the implementation's business).
func (h *bsHeaders) maybeReorg() {
	for {
		k := atomic.LoadInt32(&h.w.armedReorg)
		if k <= 0 {
			return
		}
		if atomic.CompareAndSwapInt32(&h.w.armedReorg, k, k-1) {
			if k == 1 && h.w.reorgNow() {
				atomic.AddInt32(&h.w.injected, 1)
				h.w.promptTrigger()
			}
			return
		}
	}
}

// promptTrigger: in half of the traces the node manager's reaction to the injected header (its trigger) comes at once,
// from another goroutine, while the round that was interrupted by the injection is still reading the repository; in the
// other half the driver issues it after its current step.
func (w *bsWorld) promptTrigger() {
	if !w.prompt {
		return
	}
	atomic.AddInt32(&w.triggered, 1)
	go func() {
		w.log(bsEvent{Ev: "trigger"})
		w.nm.TriggerBlockSynchronize(w.ctx)
	}()
	time.Sleep(300 * time.Microsecond)
}

func (h *bsHeaders) PreviousHash(hash bitcoin.Hash32) (*bitcoin.Hash32, int) {
	h.maybeReorg()
	return h.Repository.PreviousHash(hash)
}

func (h *bsHeaders) Hash(ctx context.Context, height int) (*bitcoin.Hash32, error) {
	h.maybeReorg()
	return h.Repository.Hash(ctx, height)
}

func (h *bsHeaders) HashHeight(hash bitcoin.Hash32) int {
	h.maybeReorg()
	return h.Repository.HashHeight(hash)
}

type bsBlock struct {
	id     int
	height int
	header *wire.BlockHeader
	hash   bitcoin.Hash32
	tx     *wire.MsgTx
}

type bsWorld struct {
	mu      sync.Mutex
	ctx     context.Context
	repo    *headers.Repository
	btm     *bitcoin_reader.MockBlockTxManager
	nm      *bitcoin_reader.NodeManager
	bm      *bitcoin_reader.BlockManager
	byHash  map[bitcoin.Hash32]*bsBlock
	chain   []*bsBlock // by height, [0] = genesis placeholder
	nextID  int
	events  []bsEvent
	lastReq [2]int
	nodes   []*bsNode
	// header injection between two reads of the synchronisation
	armed, injected int32
	armedReorg      int32
	triggered       int32 // triggers issued for injected headers
	prompt          bool
	reorgSeed       int64
	hdrMu           sync.Mutex // serialises additions to the chain (driver and injection)
	maxLen          int
	planFn          func(id int)
	hdrErr          string
	serving         map[int]int           // per block id: sources currently working on it
	gates           map[int]chan struct{} // per block id: closed when a second source is asked (simultaneous scenario)
	fail            map[int][]string      // per block id: outcomes of successive RequestBlock calls before it is served
	lone            map[int]bool          // per block id: only one connection can serve it
	hold            map[int]chan struct{}
	intr            chan interface{}
	bmDone          chan error
	wg              sync.WaitGroup
	t0              time.Time
}

func (w *bsWorld) stamp(e bsEvent) bsEvent {
	e.T = time.Since(w.t0).Microseconds()
	return e
}

type bsProcessor struct {
	*countingProcessor
	w *bsWorld
}

func (p *bsProcessor) ProcessCoinbaseTx(ctx context.Context, bh bitcoin.Hash32, tx *wire.MsgTx) error {
	seq := 0
	if n, ok := ctx.Value(bsNodeKey{}).(*bsNode); ok {
		seq = n.seq
	}
	p.w.mu.Lock()
	if b, ok := p.w.byHash[bh]; ok {
		p.w.events = append(p.w.events, p.w.stamp(bsEvent{Ev: "processed", H: b.height, ID: b.id, Node: seq}))
	} else {
		p.w.events = append(p.w.events, bsEvent{Ev: "processed", H: -1, ID: -1})
	}
	p.w.mu.Unlock()
	return nil
}

type bsNode struct {
	id        uuid.UUID
	seq       int
	cancelled chan struct{}
	once      sync.Once
}

func (n *bsNode) ID() uuid.UUID { return n.id }

// CancelBlockRequest: as the real node, a request cancelled before the block started is dropped.
func (n *bsNode) CancelBlockRequest(ctx context.Context, hash bitcoin.Hash32) bool {
	n.once.Do(func() { close(n.cancelled) })
	return false
}

func (w *bsWorld) RequestBlock(ctx context.Context, hash bitcoin.Hash32, handler bitcoin_reader.HandleBlock,
	onStop bitcoin_reader.OnStop) (bitcoin_reader.BlockRequestCanceller, error) {
	w.mu.Lock()
	b, ok := w.byHash[hash]
	if !ok {
		w.events = append(w.events, bsEvent{Ev: "req", H: -1, ID: -1})
		w.mu.Unlock()
		return nil, bitcoin_reader.ErrNodeNotAvailable
	}
	if w.lastReq != [2]int{b.height, b.id} {
		// retries of the same block by the block manager are one request of the synchronisation
		w.events = append(w.events, bsEvent{Ev: "req", H: b.height, ID: b.id})
		w.lastReq = [2]int{b.height, b.id}
	}
	outcome := "ok"
	if q := w.fail[b.id]; len(q) > 0 {
		outcome = q[0]
		w.fail[b.id] = q[1:]
	}
	hold := w.hold[b.id]
	if outcome == "nonode" {
		w.mu.Unlock()
		return nil, bitcoin_reader.ErrNodeNotAvailable
	}
	// a source asked while another one is still working on the same block
	second := w.serving[b.id] > 0
	if second && w.lone[b.id] {
		// "lone": the only connection that can serve this block is busy with it (and slow): every further
		// request for the block fails while the download goes on
		w.mu.Unlock()
		return nil, bitcoin_reader.ErrNodeNotAvailable
	}
	if outcome == "lone" {
		w.lone[b.id] = true
	}
	if bsSimultaneous && !second {
		outcome = "slow"
	}
	w.serving[b.id]++
	gate := w.gates[b.id]
	if gate == nil {
		gate = make(chan struct{})
		w.gates[b.id] = gate
	}
	w.mu.Unlock()
	node := &bsNode{id: uuid.New(), cancelled: make(chan struct{})}
	w.mu.Lock()
	w.nodes = append(w.nodes, node)
	node.seq = len(w.nodes)
	w.mu.Unlock()
	ctx = context.WithValue(ctx, bsNodeKey{}, node)
	w.wg.Add(1)
	go func() {
		defer w.wg.Done()
		defer func() {
			w.mu.Lock()
			w.serving[b.id]--
			w.mu.Unlock()
		}()
		if second && bsSimultaneous {
			// dedicated scenario: this source and the slow one before it deliver at the same instant
			w.mu.Lock()
			select {
			case <-gate:
			default:
				close(gate)
			}
			w.mu.Unlock()
		} else if second {
			// the other source is ahead: this one delivers only if nobody cancels it in 300 ms
			select {
			case <-time.After(300 * time.Millisecond):
			case <-node.cancelled:
				return
			case <-w.intr:
				return
			}
		} else if outcome == "lone" {
			// much slower than twenty request delays
			select {
			case <-time.After(120 * time.Millisecond):
			case <-node.cancelled:
				return
			case <-w.intr:
				return
			}
		} else if outcome == "slow" {
			// slower than the block manager's request delay: a second node is asked meanwhile
			select {
			case <-time.After(40 * time.Millisecond):
			case <-gate:
			case <-node.cancelled:
				return
			case <-w.intr:
				return
			}
		}
		if hold != nil {
			select {
			case <-hold:
			case <-w.intr:
				return
			}
		}
		ch := make(chan *wire.MsgTx, 2)
		switch outcome {
		case "dropmid":
			close(ch) // the node drops before the first tx
			handler(ctx, b.header, 1, ch)
		case "wrongblock":
			other := *b.header
			other.Nonce++
			ch <- b.tx
			close(ch)
			handler(ctx, &other, 1, ch)
		default:
			ch <- b.tx
			close(ch)
			handler(ctx, b.header, 1, ch)
		}
	}()
	return node, nil
}

func (w *bsWorld) newBlock(height int, prev bitcoin.Hash32, heavy bool) *bsBlock {
	id := w.nextID
	w.nextID++
	tx := wire.NewMsgTx(1)
	tx.LockTime = uint32(70000 + id)
	bits := uint32(0x1d00ffff)
	if heavy {
		bits = 0x1c555500 // three times the work: a fork of these overtakes
	}
	h := &wire.BlockHeader{Version: 1, PrevBlock: prev, Timestamp: uint32(1600000000 + id), Bits: bits, Nonce: uint32(id),
		MerkleRoot: *tx.TxHash()}
	b := &bsBlock{id: id, height: height, header: h, hash: *h.BlockHash(), tx: tx}
	w.mu.Lock() // downloads of earlier blocks read byHash meanwhile
	w.byHash[b.hash] = b
	w.mu.Unlock()
	return b
}

var bsConc = 1

// bsSimultaneous: the scenario of known finding F-C05-1 - two sources deliver the same block at the same instant.
var bsSimultaneous = false

func newBsWorld(n, start int, processed []int, firstID int) *bsWorld {
	w := &bsWorld{byHash: map[bitcoin.Hash32]*bsBlock{}, fail: map[int][]string{}, hold: map[int]chan struct{}{}, nextID: 1,
		serving: map[int]int{}, gates: map[int]chan struct{}{}, lone: map[int]bool{}}
	w.ctx = logger.ContextWithNoLogger(context.Background())
	w.t0 = time.Now()
	hcfg := headers.DefaultConfig()
	hcfg.MaxBranchDepth = 100
	w.repo = headers.NewRepository(hcfg, storage.NewMockStorage())
	w.repo.DisableDifficulty()
	w.repo.DisableSplitProtection()
	w.repo.InitializeWithGenesis()
	w.chain = []*bsBlock{{id: 0, height: 0, hash: w.repo.LastHash()}}
	w.btm = bitcoin_reader.NewMockBlockTxManager()
	for h := 1; h <= n; h++ {
		b := w.newBlock(h, w.chain[h-1].hash, false)
		w.chain = append(w.chain, b)
		if err := w.repo.ProcessHeader(w.ctx, b.header); err != nil {
			panic(err)
		}
	}
	w.nextID = firstID
	for _, id := range processed {
		if id >= 1 && id <= n {
			w.btm.AppendBlockTxIDs(w.ctx, w.chain[id].hash, nil)
		}
	}
	cfg := bitcoin_reader.DefaultConfig()
	cfg.StartBlockHeight = start
	cfg.StartupDelay = config.NewDuration(time.Hour)
	w.nm = bitcoin_reader.NewNodeManager("/verif:1/", cfg, &bsHeaders{Repository: w.repo, w: w},
		bitcoin_reader.NewPeerRepository(storage.NewMockStorage(), ""))
	w.bm = bitcoin_reader.NewBlockManager(w.btm, w, bsConc, 2*time.Millisecond)
	proc := &bsProcessor{countingProcessor: newCountingProcessor(), w: w}
	w.nm.SetBlockManager(w.btm, w.bm, proc)
	w.intr = make(chan interface{})
	w.bmDone = make(chan error, 1)
	go func() { w.bmDone <- w.bm.Run(w.ctx, w.intr) }()
	return w
}

func (w *bsWorld) log(e bsEvent) {
	w.mu.Lock()
	w.events = append(w.events, w.stamp(e))
	w.mu.Unlock()
}

func (w *bsWorld) waitIdle(d time.Duration) bool {
	done := make(chan struct{})
	go func() { w.nm.VerifWaitSyncBlocks(); close(done) }()
	select {
	case <-done:
		return true
	case <-time.After(d):
		return false
	}
}

// appendHeader lets the chain grow by one header (if there is room): the event, then the header.
func (w *bsWorld) appendHeader() bool {
	w.hdrMu.Lock()
	defer w.hdrMu.Unlock()
	if w.maxLen == 0 || len(w.chain)-1 >= w.maxLen {
		return false
	}
	h := len(w.chain)
	b := w.newBlock(h, w.chain[h-1].hash, false)
	if w.planFn != nil {
		w.planFn(b.id)
	}
	w.mu.Lock()
	w.events = append(w.events, bsEvent{Ev: "newheader", H: h, ID: b.id})
	w.mu.Unlock()
	if err := w.repo.ProcessHeader(w.ctx, b.header); err != nil {
		w.hdrErr = "harness: " + err.Error()
		return false
	}
	w.chain = append(w.chain, b)
	return true
}

// reorgNow replaces the blocks from a seed-chosen height up to the tip by a heavier fork of the same length.
func (w *bsWorld) reorgNow() bool {
	w.hdrMu.Lock()
	defer w.hdrMu.Unlock()
	n := len(w.chain) - 1
	if n < 1 {
		return false
	}
	forkAt := 1 + int(w.reorgSeed%int64(n))
	w.mu.Lock()
	w.events = append(w.events, w.stamp(bsEvent{Ev: "reorg", H: forkAt}))
	w.mu.Unlock()
	prev := w.chain[forkAt-1].hash
	newChain := append([]*bsBlock{}, w.chain[:forkAt]...)
	for h := forkAt; h <= n; h++ {
		b := w.newBlock(h, prev, true)
		if err := w.repo.ProcessHeader(w.ctx, b.header); err != nil {
			w.hdrErr = "harness: " + err.Error()
			return false
		}
		newChain = append(newChain, b)
		prev = b.hash
	}
	w.chain = newChain
	return true
}

// waitSources waits until no source is working on a block any more (a source that was asked while
// another one was ahead returns when it is cancelled, or delivers after 300 ms if nobody cancels it).
func (w *bsWorld) waitSources(d time.Duration) {
	deadline := time.Now().Add(d)
	for time.Now().Before(deadline) {
		busy := 0
		w.mu.Lock()
		for _, n := range w.serving {
			busy += n
		}
		w.mu.Unlock()
		if busy == 0 {
			return
		}
		time.Sleep(200 * time.Microsecond)
	}
}

func (w *bsWorld) processedSet() []int {
	var r []int
	w.mu.Lock()
	blocks := make([]*bsBlock, 0, len(w.byHash))
	for _, b := range w.byHash {
		blocks = append(blocks, b)
	}
	w.mu.Unlock()
	for _, b := range blocks {
		if _, ok, _ := w.btm.FetchBlockTxIDs(w.ctx, b.hash); ok {
			r = append(r, b.id)
		}
	}
	sort.Ints(r)
	return r
}

func (w *bsWorld) close() {
	close(w.intr)
	select {
	case <-w.bmDone:
	case <-time.After(3 * time.Second):
	}
}

// ---------------------------------------------------------------------------- rounds (spec -> code)

type bsScenario struct {
	N         int     `json:"n"`
	Start     int     `json:"start"`
	Processed []int   `json:"processed"`
	Reqs      [][]int `json:"reqs"` // the spec's request list: [height, id]
}

func bsRound(sc *bsScenario) string {
	w := newBsWorld(sc.N, sc.Start, sc.Processed, 100)
	defer w.close()
	w.nm.VerifMarkStartupDelayComplete(w.ctx)
	if !w.waitIdle(5 * time.Second) {
		return "the synchronisation thread did not finish within 5 s"
	}
	w.waitSources(time.Second)
	var got [][]int
	var done [][]int
	var once [][]int // done, with a block processed again within 100 ms of its first processing counted once
	var lastT int64
	w.mu.Lock()
	for _, e := range w.events {
		if e.Ev == "req" {
			got = append(got, []int{e.H, e.ID})
		}
		if e.Ev == "processed" {
			d := []int{e.H, e.ID}
			if n := len(done); n > 0 && fmt.Sprint(done[n-1]) == fmt.Sprint(d) && e.T-lastT < 100000 {
				done = append(done, d)
				continue
			}
			done = append(done, d)
			once = append(once, d)
			lastT = e.T
		}
	}
	w.mu.Unlock()
	if fmt.Sprint(got) != fmt.Sprint(sc.Reqs) && !(len(got) == 0 && len(sc.Reqs) == 0) {
		return fmt.Sprintf("blocks requested %v, spec says %v", got, sc.Reqs)
	}
	if fmt.Sprint(done) != fmt.Sprint(sc.Reqs) && !(len(done) == 0 && len(sc.Reqs) == 0) {
		if fmt.Sprint(once) == fmt.Sprint(sc.Reqs) {
			// the race of known finding F-C05-1: the request delay started another download of the block at the
			// moment the first one completed
			return fmt.Sprintf("TWICE-WITHIN-100MS blocks processed %v, spec says %v", done, sc.Reqs)
		}
		return fmt.Sprintf("blocks processed %v, spec says %v", done, sc.Reqs)
	}
	return ""
}

// ---------------------------------------------------------------------------- traces (code -> spec)

// cancelledNodes: the source connections whose request the block manager cancelled (at any time).
func (w *bsWorld) cancelledNodes() []int {
	r := []int{}
	w.mu.Lock()
	defer w.mu.Unlock()
	for _, n := range w.nodes {
		select {
		case <-n.cancelled:
			r = append(r, n.seq)
		default:
		}
	}
	return r
}

type bsTrace struct {
	Cancelled []int               `json:"cancelled_nodes"`
	ID        int                 `json:"id"`
	N         int                 `json:"n"`
	Start     int                 `json:"start"`
	MaxLen    int                 `json:"maxlen"`
	Processed []int               `json:"processed"`
	Events    []bsEvent           `json:"events"`
	Note      string              `json:"note"`
	Plan      map[string][]string `json:"plan"`
}

func bsTraceOne(id int, seed int64, orphan bool) bsTrace {
	rng := rand.New(rand.NewSource(seed))
	const maxLen = 6
	n := rng.Intn(4)
	start := 1 + rng.Intn(3) // height 0 is the real genesis block, which the scripted source cannot serve
	var processed []int
	for i := 1; i <= n; i++ {
		if rng.Intn(3) == 0 {
			processed = append(processed, i)
		}
	}
	tr := bsTrace{ID: id, N: n, Start: start, MaxLen: maxLen, Processed: processed, Plan: map[string][]string{}}
	if processed == nil {
		tr.Processed = []int{}
	}
	w := newBsWorld(n, start, processed, maxLen+1)
	defer w.close()
	// block source failures before a block is served
	outcomes := []string{"nonode", "dropmid", "wrongblock", "slow", "slow", "lone"}
	plan := func(id int) {
		if rng.Intn(3) == 0 {
			var q []string
			for k := 0; k < 1+rng.Intn(2); k++ {
				q = append(q, outcomes[rng.Intn(len(outcomes))])
			}
			w.mu.Lock()
			w.fail[id] = q
			w.mu.Unlock()
			if tr.Plan == nil {
				tr.Plan = map[string][]string{}
			}
			tr.Plan[fmt.Sprint(id)] = append([]string{}, q...)
		}
	}
	for i := 1; i <= n; i++ {
		plan(i)
	}
	w.maxLen = maxLen
	w.planFn = plan
	addHeader := func() bool {
		ok := w.appendHeader()
		if w.hdrErr != "" {
			tr.Note = w.hdrErr
		}
		return ok
	}
	trigger := func() {
		w.log(bsEvent{Ev: "trigger"})
		w.nm.TriggerBlockSynchronize(w.ctx)
	}
	w.log(bsEvent{Ev: "trigger"})
	w.nm.VerifMarkStartupDelayComplete(w.ctx)

	if orphan && n >= 1 {
		// the tip's block is held by its source; meanwhile a heavier fork replaces it
		// (handled below after the first trigger)
	}
	steps := 2 + rng.Intn(5)
	w.prompt = rng.Intn(2) == 0
	reorged := false
	catchUp := func() {
		// the trigger the node manager issues for a header that arrived between two reads of the synchronisation
		for atomic.LoadInt32(&w.triggered) < atomic.LoadInt32(&w.injected) {
			atomic.AddInt32(&w.triggered, 1)
			trigger()
		}
	}
	for s := 0; s < steps; s++ {
		switch rng.Intn(6) {
		case 0:
			time.Sleep(time.Duration(rng.Intn(3000)) * time.Microsecond)
		case 1, 2:
			if addHeader() {
				trigger()
			}
		case 3:
			trigger()
		case 4:
			// the next round reads the tip, and a header arrives before it reads anything else
			atomic.StoreInt32(&w.armed, 1)
			trigger()
		case 5:
			// ... or a reorganisation lands while the round walks back from the tip (once per trace)
			if !reorged {
				reorged = true
				w.reorgSeed = rng.Int63()
				atomic.StoreInt32(&w.armedReorg, int32(1+rng.Intn(4)))
				trigger()
			}
		}
		catchUp()
	}
	for k := 0; k < 3; k++ {
		if !w.waitIdle(8 * time.Second) {
			tr.Note = "the synchronisation thread did not finish within 8 s"
		}
		if atomic.LoadInt32(&w.triggered) >= atomic.LoadInt32(&w.injected) {
			break
		}
		catchUp()
	}
	atomic.StoreInt32(&w.armed, 0)
	atomic.StoreInt32(&w.armedReorg, 0)
	if w.hdrErr != "" {
		tr.Note = w.hdrErr
	}
	w.waitSources(time.Second)
	w.log(bsEvent{Ev: "idle", Set: w.processedSet()})

	// a reorganisation after the rounds have completed: the blocks of the new best chain above the fork
	// point are still to be processed, from the lowest one
	if n := len(w.chain) - 1; tr.Note == "" && n >= 1 && !reorged && rng.Intn(3) == 0 {
		forkAt := 1 + rng.Intn(n)
		w.log(bsEvent{Ev: "reorg", H: forkAt})
		prev := w.chain[forkAt-1].hash
		newChain := append([]*bsBlock{}, w.chain[:forkAt]...)
		for h := forkAt; h <= n; h++ {
			b := w.newBlock(h, prev, true)
			if err := w.repo.ProcessHeader(w.ctx, b.header); err != nil {
				tr.Note = "harness: " + err.Error()
			}
			newChain = append(newChain, b)
			prev = b.hash
		}
		w.chain = newChain
		trigger()
		if !w.waitIdle(8 * time.Second) {
			tr.Note = "the synchronisation thread did not finish within 8 s of the late reorganisation"
		}
		w.waitSources(time.Second)
		w.log(bsEvent{Ev: "idle", Set: w.processedSet()})
	}

	w.mu.Lock()
	tr.Events = append([]bsEvent{}, w.events...)
	w.mu.Unlock()
	tr.Cancelled = w.cancelledNodes()
	for i := range tr.Events {
		if tr.Events[i].Set == nil {
			tr.Events[i].Set = []int{}
		}
	}
	return tr
}

// bsOrphan: a pending block leaves the best chain; it must be abandoned (after the 10 s poll of the
// implementation) and a later round must continue on the new best chain.
func bsOrphan(id int, seed int64) bsTrace {
	rng := rand.New(rand.NewSource(seed))
	const maxLen = 6
	n := 2 + rng.Intn(2)
	tr := bsTrace{ID: id, N: n, Start: 1, MaxLen: maxLen, Processed: []int{}, Plan: map[string][]string{}}
	w := newBsWorld(n, 1, nil, maxLen+1)
	defer w.close()
	// the block at the fork height is held back by its source
	forkAt := 1 + rng.Intn(n) // the reorg replaces heights forkAt..n
	held := w.chain[forkAt]
	release := make(chan struct{})
	w.mu.Lock()
	w.hold[held.id] = release
	w.mu.Unlock()
	w.log(bsEvent{Ev: "trigger"})
	w.nm.VerifMarkStartupDelayComplete(w.ctx)
	// wait until the held block is requested
	deadline := time.Now().Add(3 * time.Second)
	for time.Now().Before(deadline) {
		w.mu.Lock()
		lr := w.lastReq
		w.mu.Unlock()
		if lr == [2]int{held.height, held.id} {
			break
		}
		time.Sleep(200 * time.Microsecond)
	}
	// a heavier fork from forkAt-1 replaces forkAt..n (same length, three times the work per header)
	w.log(bsEvent{Ev: "reorg", H: forkAt})
	prev := w.chain[forkAt-1].hash
	newChain := append([]*bsBlock{}, w.chain[:forkAt]...)
	for h := forkAt; h <= n; h++ {
		b := w.newBlock(h, prev, true)
		if err := w.repo.ProcessHeader(w.ctx, b.header); err != nil {
			tr.Note = "harness: " + err.Error()
		}
		newChain = append(newChain, b)
		prev = b.hash
	}
	w.chain = newChain
	w.log(bsEvent{Ev: "trigger"})
	w.nm.TriggerBlockSynchronize(w.ctx)
	if !w.waitIdle(25 * time.Second) {
		tr.Note = "the synchronisation thread did not finish within 25 s of the reorganisation"
	}
	close(release)
	w.log(bsEvent{Ev: "idle", Set: w.processedSet()})
	w.mu.Lock()
	tr.Events = append([]bsEvent{}, w.events...)
	w.mu.Unlock()
	tr.Cancelled = w.cancelledNodes()
	for i := range tr.Events {
		if tr.Events[i].Set == nil {
			tr.Events[i].Set = []int{}
		}
	}
	return tr
}

// bsSlowBlock: a block that is not the first of its round takes longer than the 10 s after which the
// implementation checks whether a pending block has left the best chain.  It has not: it must not be
// abandoned, and the round goes on to the tip.
func bsSlowBlock(id int, seed int64) bsTrace {
	rng := rand.New(rand.NewSource(seed))
	const maxLen = 6
	n := 3 + rng.Intn(2)
	tr := bsTrace{ID: id, N: n, Start: 1, MaxLen: maxLen, Processed: []int{}, Plan: map[string][]string{}}
	w := newBsWorld(n, 1, nil, maxLen+1)
	defer w.close()
	held := w.chain[2+rng.Intn(n-2)] // not the first block of the round
	release := make(chan struct{})
	w.mu.Lock()
	w.hold[held.id] = release
	w.mu.Unlock()
	w.log(bsEvent{Ev: "trigger"})
	w.nm.VerifMarkStartupDelayComplete(w.ctx)
	time.Sleep(10500 * time.Millisecond)
	close(release)
	if !w.waitIdle(15 * time.Second) {
		tr.Note = "the synchronisation thread did not finish within 15 s of the slow block's delivery"
	}
	w.waitSources(time.Second)
	w.log(bsEvent{Ev: "idle", Set: w.processedSet()})
	w.mu.Lock()
	tr.Events = append([]bsEvent{}, w.events...)
	w.mu.Unlock()
	tr.Cancelled = w.cancelledNodes()
	for i := range tr.Events {
		if tr.Events[i].Set == nil {
			tr.Events[i].Set = []int{}
		}
	}
	return tr
}

// ---------------------------------------------------------------------------- stress (lost trigger)

func bsStress(seed int64, iterations int) (int, string) {
	rng := rand.New(rand.NewSource(seed))
	done := 0
	for done < iterations {
		w := newBsWorld(0, 1, nil, 1)
		w.nm.VerifMarkStartupDelayComplete(w.ctx)
		w.waitIdle(time.Second)
		prev := w.chain[0].hash
		for k := 1; k <= 400 && done < iterations; k++ {
			b := w.newBlock(k, prev, false)
			prev = b.hash
			if err := w.repo.ProcessHeader(w.ctx, b.header); err != nil {
				w.close()
				return done, "harness: " + err.Error()
			}
			w.nm.TriggerBlockSynchronize(w.ctx)
			done++
			// aim the next header at the moment the round finishes: wait until this block is processed,
			// then a seed-chosen few microseconds
			deadline := time.Now().Add(300 * time.Millisecond)
			ok := false
			for time.Now().Before(deadline) {
				if _, exists, _ := w.btm.FetchBlockTxIDs(w.ctx, b.hash); exists {
					ok = true
					break
				}
				time.Sleep(5 * time.Microsecond)
			}
			if !ok {
				w.close()
				return done, fmt.Sprintf("block %d was not processed within 300 ms of its trigger, with no further trigger (lost trigger)", k)
			}
			if d := rng.Intn(40); d > 0 {
				t0 := time.Now()
				for time.Since(t0) < time.Duration(d)*time.Microsecond {
				}
			}
		}
		w.close()
	}
	return done, ""
}

func bsyMain(args []string) int {
	fs := flag.NewFlagSet("bsy", flag.ExitOnError)
	mode := fs.String("mode", "rounds", "rounds | traces | stress")
	in := fs.String("in", "", "scenarios (rounds)")
	seed := fs.Int64("seed", 1, "seed")
	count := fs.Int("count", 100, "traces / stress iterations")
	orphans := fs.Int("orphans", 0, "orphan scenarios (about 10 s each, run in parallel)")
	out := fs.String("out", "", "trace output")
	workers := fs.Int("workers", 8, "workers")
	conc := fs.Int("conc", 1, "concurrent block requests of the block manager")
	simul := fs.Bool("simul", false, "with -conc 2: a second source delivers at the same instant as the slow first one")
	fs.Parse(args)
	bsConc = *conc
	bsSimultaneous = *simul
	switch *mode {
	case "rounds":
		type div struct {
			Msg  string `json:"msg"`
			Line string `json:"line"`
		}
		var mu sync.Mutex
		divs := []div{}
		n := 0
		nonEmpty := 0
		jobs := make(chan string, 64)
		var wg sync.WaitGroup
		var sample []string
		for i := 0; i < *workers; i++ {
			wg.Add(1)
			go func() {
				defer wg.Done()
				for line := range jobs {
					var sc bsScenario
					if json.Unmarshal([]byte(line), &sc) != nil {
						continue
					}
					msg := bsRound(&sc)
					mu.Lock()
					n++
					if len(sc.Reqs) > 0 {
						nonEmpty++
						if len(sample) < 3 && n%37 == 1 {
							sample = append(sample, line)
						}
					}
					if msg != "" && len(divs) < 40 {
						divs = append(divs, div{Msg: msg, Line: line})
					}
					mu.Unlock()
				}
			}()
		}
		err := behaviourLines(*in, "SCN", func(idx int, line string) { jobs <- line })
		close(jobs)
		wg.Wait()
		if err != nil {
			fmt.Fprintln(os.Stderr, err)
			return 2
		}
		json.NewEncoder(os.Stdout).Encode(map[string]interface{}{"scenarios": n, "with_requests": nonEmpty, "divergences": divs, "samples": sample})
	case "traces":
		f := os.Stdout
		if *out != "" {
			var err error
			if f, err = os.Create(*out); err != nil {
				return 2
			}
			defer f.Close()
		}
		total := *count + *orphans
		res := make([]bsTrace, total)
		jobs := make(chan int, total)
		var wg sync.WaitGroup
		nw := *workers
		if *orphans > nw {
			nw = *orphans
		}
		for i := 0; i < nw; i++ {
			wg.Add(1)
			go func() {
				defer wg.Done()
				for id := range jobs {
					if id < *orphans && id%3 == 2 {
						res[id] = bsSlowBlock(id+1, *seed*1000003+int64(id))
					} else if id < *orphans {
						res[id] = bsOrphan(id+1, *seed*1000003+int64(id))
					} else {
						res[id] = bsTraceOne(id+1, *seed*1000003+int64(id), false)
					}
				}
			}()
		}
		for i := 0; i < total; i++ {
			jobs <- i
		}
		close(jobs)
		wg.Wait()
		enc := json.NewEncoder(f)
		for _, t := range res {
			enc.Encode(t)
		}
	case "stress":
		var mu sync.Mutex
		total := 0
		msgs := []string{}
		var wg sync.WaitGroup
		per := *count / *workers
		for i := 0; i < *workers; i++ {
			wg.Add(1)
			go func(i int) {
				defer wg.Done()
				n, msg := bsStress(*seed*977+int64(i), per)
				mu.Lock()
				total += n
				if msg != "" {
					msgs = append(msgs, msg)
				}
				mu.Unlock()
			}(i)
		}
		wg.Wait()
		json.NewEncoder(os.Stdout).Encode(map[string]interface{}{"arrivals": total, "lost": msgs})
	}
	return 0
}
