package main

// hostile: C15. Byte streams generated from conformant sessions by mutation operators (corrupt
// checksum / length / count / varint, truncation, oversized declared lengths, extended headers with
// lengths up to 2^64-1, headers with arbitrary bits and timestamps, hostile tx and block encodings,
// noise) are delivered to a real BitcoinNode before the handshake, during verification and when
// ready. This command is run as an isolated worker process: a panic in a handler goroutine kills the
// process, which is what the parent observes. The envelope comes from PeerSession.tla: after any
// input the session is either still in sync (a ping is answered) or closed, and Run returns once the
// connection is closed; a second, healthy connection in the same process must stay usable.

import (
	"bytes"
	"context"
	"encoding/binary"
	"flag"
	"fmt"
	"math/rand"
	"os"
	"runtime"
	"time"

	"github.com/tokenized/bitcoin_reader/headers"
	"github.com/tokenized/pkg/bitcoin"
	"github.com/tokenized/pkg/storage"
	"github.com/tokenized/pkg/wire"
)

func init() { subcommands["hostile"] = hostileMain }

func putVarInt(b *bytes.Buffer, v uint64) { wire.WriteVarInt(b, wire.ProtocolVersion, v) }

// hostilePayloads builds the i-th hostile input for a session in the given phase.
func hostileInput(s *session, rng *rand.Rand) (string, []byte) {
	interesting := []uint64{0, 1, 0xfc, 0xfd, 0xffff, 0x10000, 0xffffffff, 0x100000000, 1 << 62, 1 << 63, ^uint64(0), ^uint64(0) - 1}
	pickU := func() uint64 {
		if rng.Intn(3) == 0 {
			return rng.Uint64()
		}
		return interesting[rng.Intn(len(interesting))]
	}
	raw := func(cmd string, declared uint32, checksumOK bool, payload []byte) []byte {
		m := rawMessage(cmd, payload)
		binary.LittleEndian.PutUint32(m[16:20], declared)
		if !checksumOK {
			m[20] ^= 0xff
		}
		return m
	}
	ext := func(cmd string, declared uint64, payload []byte) []byte {
		m := extMessage(cmd, payload)
		binary.LittleEndian.PutUint64(m[24+12:24+20], declared)
		return m
	}
	hdrWith := func(bits uint32, ts uint32) *wire.BlockHeader {
		h := s.fabHeader(s.tip)
		h.Bits = bits
		h.Timestamp = ts
		return h
	}
	k := rng.Intn(23)
	if s.wanted != nil && rng.Intn(2) == 0 {
		k = 12
	}
	if s.altHeaders != nil && rng.Intn(3) == 0 {
		k = 22
	}
	switch k {
	case 0:
		b := make([]byte, 1+rng.Intn(200))
		rng.Read(b)
		return "noise", b
	case 1:
		m := s.build([]string{"addr", "inv", "tx", "reject", "protoconf", "version", "hdrGood"}[rng.Intn(7)])
		m[20+rng.Intn(4)] ^= 0x01
		return "bad checksum", m
	case 2:
		m := s.build([]string{"addr", "inv", "tx", "reject", "getaddr", "other", "hdrGood", "block"}[rng.Intn(8)])
		binary.LittleEndian.PutUint32(m[16:20], uint32(pickU()))
		return "wrong declared length", m
	case 3:
		m := s.build([]string{"addr", "inv", "tx", "hdrGood", "block", "extTx", "extBlock"}[rng.Intn(7)])
		return "truncated", m[:rng.Intn(len(m))]
	case 4:
		return "oversized classic length, few bytes", raw([]string{"tx", "block", "addr", "inv", "headers", "foo", "version", "reject"}[rng.Intn(8)],
			uint32(pickU()), true, make([]byte, rng.Intn(40)))
	case 5:
		return "extended header, huge length", ext([]string{"tx", "block", "foo", "headers"}[rng.Intn(4)], pickU(), make([]byte, rng.Intn(60)))
	case 6:
		var p bytes.Buffer
		putVarInt(&p, pickU())
		p.Write(make([]byte, rng.Intn(100)))
		return "headers with hostile count", rawMessage("headers", p.Bytes())
	case 7:
		bitsList := []uint32{0, 0x01010000, 0x02000100, 0x00ffffff, 0x01000000, 0x03000001, 0xff7fffff, 0xffffffff, 0x1d80ffff, 0x04800001, 0x20ffffff, rng.Uint32()}
		h := hdrWith(bitsList[rng.Intn(len(bitsList))], []uint32{0, 1, 0x7fffffff, 0xffffffff, rng.Uint32()}[rng.Intn(5)])
		return fmt.Sprintf("headers with bits %08x", h.Bits), rawMessage("headers", headersPayload([]*wire.BlockHeader{h}, 0))
	case 8:
		var p bytes.Buffer
		putVarInt(&p, pickU())
		p.Write(make([]byte, rng.Intn(80)))
		return "inv with hostile count", rawMessage("inv", p.Bytes())
	case 9:
		var p bytes.Buffer
		putVarInt(&p, pickU())
		p.Write(make([]byte, rng.Intn(80)))
		return "addr with hostile count", rawMessage("addr", p.Bytes())
	case 10:
		// tx with hostile input / output / script counts
		var p bytes.Buffer
		binary.Write(&p, binary.LittleEndian, uint32(1))
		putVarInt(&p, pickU())
		p.Write(make([]byte, rng.Intn(60)))
		if rng.Intn(2) == 0 {
			return "tx with hostile counts", rawMessage("tx", p.Bytes())
		}
		return "extended tx with hostile counts", extMessage("tx", p.Bytes())
	case 11:
		// tx with one input whose script length is hostile
		var p bytes.Buffer
		binary.Write(&p, binary.LittleEndian, uint32(1))
		putVarInt(&p, 1)
		p.Write(make([]byte, 36))
		putVarInt(&p, pickU())
		p.Write(make([]byte, rng.Intn(40)))
		return "tx with hostile script length", rawMessage("tx", p.Bytes())
	case 12:
		// block with hostile tx count
		var p bytes.Buffer
		if s.wanted != nil && rng.Intn(3) != 0 {
			p.Write(s.wanted[:80]) // the header of the block the node asked for
		} else {
			s.fabHeader(s.tip).Serialize(&p)
		}
		putVarInt(&p, pickU())
		p.Write(make([]byte, rng.Intn(40)))
		if rng.Intn(2) == 0 {
			return "block with hostile tx count", rawMessage("block", p.Bytes())
		}
		return "extended block with hostile tx count", extMessage("block", p.Bytes())
	case 13:
		var p bytes.Buffer
		binary.Write(&p, binary.LittleEndian, int32(rng.Uint32()))
		p.Write(make([]byte, rng.Intn(120)))
		return "version with garbage body", rawMessage("version", p.Bytes())
	case 14:
		var p bytes.Buffer
		putVarInt(&p, pickU())
		p.Write(make([]byte, rng.Intn(30)))
		return "protoconf with hostile field count", rawMessage("protoconf", p.Bytes())
	case 15:
		var p bytes.Buffer
		putVarInt(&p, pickU()) // message string length
		p.Write(make([]byte, rng.Intn(30)))
		return "reject with hostile string length", rawMessage("reject", p.Bytes())
	case 16:
		m := s.build("ping")
		if m == nil {
			m = wireMessage(wire.NewMsgPing(1))
		}
		return "ping with wrong size", raw("ping", uint32(rng.Intn(7)), true, make([]byte, rng.Intn(7)))
	case 17:
		// wrong network magic
		m := wireMessage(wire.NewMsgPing(7))
		binary.LittleEndian.PutUint32(m[0:4], rng.Uint32())
		return "wrong magic", m
	case 18:
		// command with invalid characters
		m := rawMessage("foo", make([]byte, rng.Intn(20)))
		for i := 4; i < 16; i++ {
			m[i] = byte(0x80 + rng.Intn(0x7f))
		}
		return "non-utf8 command", m
	case 19:
		// headers whose entries have hostile tx counts
		var p bytes.Buffer
		putVarInt(&p, 2)
		for i := 0; i < 2; i++ {
			s.fabHeader(s.tip).Serialize(&p)
			putVarInt(&p, pickU())
		}
		return "headers with hostile tx counts", rawMessage("headers", p.Bytes())
	case 20:
		// requested-looking getdata / notfound with hostile counts (no handler: must be skipped by length)
		var p bytes.Buffer
		putVarInt(&p, pickU())
		return "getdata with hostile count", rawMessage("getdata", p.Bytes())
	case 22:
		// a headers message that announces two headers and stops after the first one, which is a header the node
		// accepts (the required header while verifying, the next header of its chain otherwise): the handler and
		// the alternate header handler, if one is installed, are both left waiting for the second
		first := s.fabHeader(s.tip)
		if !s.node.Verified() {
			first = headers.MainNetRequiredHeader
		}
		m := rawMessage("headers", headersPayload([]*wire.BlockHeader{first, s.fabHeader(*first.BlockHash())}, 0))
		return "headers cut after the first of two headers", m[:24+1+81]
	default:
		// a valid message with random bit flips in the payload (checksum recomputed)
		m := s.build([]string{"addr", "inv", "tx", "reject", "hdrGood", "version"}[rng.Intn(6)])
		payload := append([]byte{}, m[24:]...)
		for i := 0; i < 1+rng.Intn(4) && len(payload) > 0; i++ {
			payload[rng.Intn(len(payload))] ^= byte(1 << uint(rng.Intn(8)))
		}
		cmd := string(bytes.TrimRight(m[4:16], "\x00"))
		return "bit flips in " + cmd, rawMessage(cmd, payload)
	}
}

func hostileMain(args []string) int {
	fs := flag.NewFlagSet("hostile", flag.ExitOnError)
	seed := fs.Int64("seed", 1, "seed")
	from := fs.Int("from", 0, "first session index")
	count := fs.Int("count", 500, "sessions")
	describe := fs.Bool("describe", false, "print the input of the sessions instead of running them")
	fs.Parse(args)

	// a healthy connection that must survive everything the hostile peers do
	healthy := newSession(&sessBeh{TxMgr: true}, *seed, false)
	hinit := map[string]int{}
	healthy.collect(0, 50*time.Millisecond, hinit)
	hstep := func(class string) bool {
		if !healthy.write(healthy.build(class), 2*time.Second) {
			return false
		}
		n := healthy.rng.Uint64()
		if !healthy.write(wireMessage(wire.NewMsgPing(n)), 2*time.Second) {
			return false
		}
		pong, _ := healthy.collect(n, 2*time.Second, map[string]int{})
		return pong
	}
	if !*describe {
		if !hstep("version") || !hstep("verack") {
			fmt.Println("HARNESS healthy handshake failed")
			return 2
		}
		healthy.awaitCmd("getheaders", 1, 10*time.Second)
		if !hstep("hdrBSV") {
			fmt.Println("HARNESS healthy verification failed")
			return 2
		}
	}

	for i := *from; i < *from+*count; i++ {
		rng := rand.New(rand.NewSource(*seed*1000003 + int64(i)))
		phase := []string{"connected", "verifying", "ready"}[rng.Intn(3)]
		beh := &sessBeh{TxMgr: rng.Intn(4) != 0, VerifyOnly: rng.Intn(6) == 0}
		s := newSession(beh, *seed*7+int64(i), false)
		if rng.Intn(3) == 0 {
			// an alternate header handler (NodeManager.SetHeaderHandler): a second repository that reads every
			// headers message alongside the node's own handler
			alt := headers.NewRepository(headers.DefaultConfig(), storage.NewMockStorage())
			alt.DisableDifficulty()
			alt.InitializeWithGenesis()
			s.altHeaders = alt
			s.node.SetHeaderHandler(alt.HandleHeadersMessage)
		}
		fmt.Printf("SESSION %d %s\n", i, phase)
		init := map[string]int{}
		s.collect(0, 30*time.Millisecond, init)
		step := func(class string) bool {
			if !s.write(s.build(class), 2*time.Second) {
				return false
			}
			n := s.rng.Uint64()
			if !s.write(wireMessage(wire.NewMsgPing(n)), 2*time.Second) {
				return false
			}
			pong, _ := s.collect(n, 2*time.Second, map[string]int{})
			return pong
		}
		ok := true
		if phase != "connected" {
			ok = step("version") && step("verack")
			if ok {
				s.awaitCmd("getheaders", 1, 5*time.Second)
			}
		}
		if ok && phase == "ready" && !beh.VerifyOnly {
			ok = step("hdrBSV")
		}
		if !ok {
			fmt.Printf("HARNESS %d could not reach phase %s\n", i, phase)
			s.close()
			continue
		}
		if phase == "ready" && rng.Intn(3) == 0 {
			// a block request is outstanding: block messages reach the block handler
			blk := s.blockBytes()
			var hdr wire.BlockHeader
			hdr.Deserialize(bytes.NewReader(blk[:80]))
			s.wanted = blk
			s.node.RequestBlock(s.ctx, *hdr.BlockHash(),
				func(ctx context.Context, h *wire.BlockHeader, n uint64, ch <-chan *wire.MsgTx) error {
					for range ch {
					}
					return nil
				}, func(context.Context) {})
		}
		flooded := false
		// some sessions that have not started the handshake: a peer that floods pings and does not read the answers, so that the node's
		// outgoing queue (1000 messages) fills up and its message handling waits on it when the connection goes
		if phase == "connected" && rng.Intn(4) == 0 && !*describe {
			fmt.Printf("INPUT %d ping flood from a peer that does not read (6000 pings)\n", i)
			var flood bytes.Buffer
			for k := 0; k < 6000; k++ {
				flood.Write(wireMessage(wire.NewMsgPing(uint64(k))))
			}
			wrote := make(chan struct{})
			go func() {
				s.conn.SetWriteDeadline(time.Now().Add(3 * time.Second))
				s.conn.Write(flood.Bytes())
				close(wrote)
			}()
			// the peer never completes the handshake: the node gives up by itself after 3 s and closes the
			// channel its blocked handler is sending on
			select {
			case err := <-s.runDone:
				s.runDone <- err
			case <-time.After(4500 * time.Millisecond):
			}
			select {
			case <-wrote:
			case <-time.After(time.Second):
			}
			flooded = true
		}
		// one to three hostile inputs
		nin := 1 + rng.Intn(3)
		if flooded {
			nin = 0
		}
		closed := false
		for k := 0; k < nin && !closed; k++ {
			what, data := hostileInput(s, rng)
			fmt.Printf("INPUT %d %s (%d bytes)\n", i, what, len(data))
			if *describe {
				fmt.Printf("  %x\n", data)
				continue
			}
			if !s.write(data, 2*time.Second) {
				closed = true
				break
			}
			// in sync or closed?
			n := s.rng.Uint64()
			if !s.write(wireMessage(wire.NewMsgPing(n)), time.Second) {
				closed = true
				break
			}
			pong, eof := s.collect(n, 150*time.Millisecond, map[string]int{})
			if eof {
				closed = true
			} else if !pong {
				// the node may be waiting for the rest of a declared length: that is "in sync" as far as the
				// protocol goes; closing the connection must end it
				break
			}
		}
		if *describe {
			s.close()
			continue
		}
		// the connection closes: Run must return
		s.conn.Close()
		select {
		case <-s.runDone:
		case <-time.After(5 * time.Second):
			fmt.Printf("BAD %d node Run did not return within 5 s after the connection was closed\n", i)
			buf := make([]byte, 1<<20)
			fmt.Fprintf(os.Stderr, "STACKS for session %d\n%s\n", i, buf[:runtime.Stack(buf, true)])
		}
		close(s.intr)
		if s.txm != nil {
			s.txm.Stop(s.ctx)
		}
		// the healthy connection and the repositories are unaffected
		if i%10 == 0 {
			if !hstep("ping") {
				fmt.Printf("BAD %d the healthy connection in the same process no longer answers\n", i)
			}
			if healthy.repo.Height() < 0 || !healthy.node.IsReady() {
				fmt.Printf("BAD %d the healthy node is no longer ready\n", i)
			}
		}
	}
	fmt.Printf("DONE %d\n", *count)
	_ = headers.ErrUnknownHeader
	_ = bitcoin.MainNet
	return 0
}
