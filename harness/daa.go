package main

// daa: C02. Every case of Daa.tla (timestamps of the six endpoint blocks; which block is each
// endpoint; the clamped span) is instantiated as a chain of 150 real headers with distinct bits on
// top of a mocked base above the activation height; the bits the real code requires for the next
// header (on the main chain and on a fork) are compared with the value computed from the endpoints
// and span the specification selected (the 256-bit division and the compact encoding are done here
// with the network's formulas). Further modes: the real chain of the fixtures with the difficulty
// check on, single-field mutations of real headers, and every bits encoding in an isolated worker.

import (
	"context"
	"encoding/json"
	"flag"
	"fmt"
	"math/big"
	"math/rand"
	"os"
	"strings"
	"sync"

	"github.com/tokenized/bitcoin_reader/headers"
	"github.com/tokenized/logger"
	"github.com/tokenized/pkg/bitcoin"
	"github.com/tokenized/pkg/storage"
	"github.com/tokenized/pkg/wire"
)

func init() { subcommands["daa"] = daaMain }

var two256 = new(big.Int).Lsh(big.NewInt(1), 256)

// decodeCompact is the network's SetCompact for positive, non-overflowing values.
func decodeCompact(bits uint32) *big.Int {
	size := bits >> 24
	word := int64(bits & 0x007fffff)
	r := big.NewInt(word)
	if size <= 3 {
		return r.Rsh(r, uint(8*(3-size)))
	}
	return r.Lsh(r, uint(8*(size-3)))
}

// encodeCompact is the network's GetCompact.
func encodeCompact(t *big.Int) uint32 {
	size := uint32((t.BitLen() + 7) / 8)
	var compact uint32
	if size <= 3 {
		compact = uint32(t.Uint64() << (8 * (3 - size)))
	} else {
		compact = uint32(new(big.Int).Rsh(t, uint(8*(size-3))).Uint64())
	}
	if compact&0x00800000 != 0 {
		compact >>= 8
		size++
	}
	return compact | size<<24
}

// blockProof is the network's GetBlockProof: floor(2^256 / (target+1)).
func blockProof(bits uint32) *big.Int {
	t := decodeCompact(bits)
	t.Add(t, big.NewInt(1))
	return new(big.Int).Div(two256, t)
}

// requiredBits: the network's ComputeTarget from the two endpoints and the clamped span.
func requiredBits(workLast, workFirst *big.Int, span int64) uint32 {
	w := new(big.Int).Sub(workLast, workFirst)
	w.Mul(w, big.NewInt(600))
	w.Div(w, big.NewInt(span))
	// (-work) / work + 1 in 256-bit arithmetic
	t := new(big.Int).Sub(two256, w)
	t.Div(t, w)
	t.Add(t, big.NewInt(1))
	limit := decodeCompact(0x1d00ffff)
	if t.Cmp(limit) > 0 {
		t = limit
	}
	return encodeCompact(t)
}

type daaCase struct {
	First    []int `json:"first"`
	Last     []int `json:"last"`
	FirstSel int   `json:"firstSel"`
	LastSel  int   `json:"lastSel"`
	Raw      int   `json:"raw"`
	Span     int   `json:"span"`
	Proj1    int   `json:"proj1"`
}

const daaBaseHeight = 600000
const daaT0 = 1600000000

func daaHeader(prev bitcoin.Hash32, i int, ts uint32, salt uint32) *wire.BlockHeader {
	h := &wire.BlockHeader{Version: 1, PrevBlock: prev, Timestamp: ts, Bits: uint32(0x1c0ffff0 - i*16 - int(salt%7)), Nonce: uint32(i)*131 + salt}
	h.MerkleRoot[0] = byte(i)
	h.MerkleRoot[1] = byte(salt)
	return h
}

func daaRun(ctx context.Context, c *daaCase) []string {
	var out []string
	hcfg := headers.DefaultConfig()
	hcfg.MaxBranchDepth = 1000 // forks start at the first window, 147 blocks below the tip
	repo := headers.NewRepository(hcfg, storage.NewMockStorage())
	repo.DisableDifficulty()
	repo.DisableSplitProtection()
	base := daaHeader(bitcoin.Hash32{}, 0, daaT0, 1)
	baseWork := new(big.Int).Lsh(big.NewInt(1), 80)
	repo.MockLatest(ctx, base, daaBaseHeight, baseWork)

	// main chain: indices 1..150 ; the header asked about is index 151
	ts := func(i int, lastWin []int) uint32 {
		switch {
		case i >= 4 && i <= 6:
			return uint32(daaT0 + 400000 + c.First[i-4])
		case i >= 148 && i <= 150:
			return uint32(daaT0 + 400000 + lastWin[i-148])
		}
		return uint32(daaT0 + 1000 + i*7)
	}
	mainLast := c.Last
	cum := map[int]*big.Int{0: baseWork}
	hashes := map[int]bitcoin.Hash32{0: *base.BlockHash()}
	for i := 1; i <= 150; i++ {
		h := daaHeader(hashes[i-1], i, ts(i, mainLast), 0)
		if err := repo.ProcessHeader(ctx, h); err != nil {
			return []string{"harness: " + err.Error()}
		}
		hashes[i] = *h.BlockHash()
		cum[i] = new(big.Int).Add(cum[i-1], blockProof(h.Bits))
	}
	want := requiredBits(cum[147+c.LastSel], cum[3+c.FirstSel], int64(c.Span))
	got, err := repo.VerifTarget(ctx, hashes[150], daaBaseHeight+151)
	if err != nil {
		out = append(out, "main chain: target error "+err.Error())
	} else if got != want {
		out = append(out, fmt.Sprintf("main chain: required bits 0x%08x, the network's rule gives 0x%08x", got, want))
	}

	// competing headers on top of the endpoint blocks and of the blocks below them (forks that start
	// there) do not change what the rule requires on the main chain
	for _, j := range []int{3 + c.FirstSel, 2 + c.FirstSel, 147 + c.LastSel, 146 + c.LastSel} {
		if j >= 150 {
			continue // a child of the tip extends the chain
		}
		sib := daaHeader(hashes[j], j+1, ts(j+1, mainLast)+1, 9)
		if err := repo.ProcessHeader(ctx, sib); err != nil {
			return append(out, "harness: competing header refused: "+err.Error())
		}
	}
	got, err = repo.VerifTarget(ctx, hashes[150], daaBaseHeight+151)
	if err != nil {
		out = append(out, "main chain after forks at the endpoint blocks: target error "+err.Error())
	} else if got != want {
		out = append(out, fmt.Sprintf("main chain after forks at the endpoint blocks: required bits 0x%08x, the network's rule gives 0x%08x", got, want))
	}

	return append(out, daaLowCase(ctx, c, ts)...)
}

// daaLowCase: the case's timestamps on a chain whose headers carry one unit of work each (bits 0x2100ffff): the
// specification says what the projection floors to (proj1), zero meaning "nothing to project: the cap".
func daaLowCase(ctx context.Context, c *daaCase, ts func(int, []int) uint32) (out []string) {
	defer func() {
		if r := recover(); r != nil {
			out = append(out, fmt.Sprintf("low-work chain: PANIC in the difficulty rule: %v", r))
		}
	}()
	repo := headers.NewRepository(headers.DefaultConfig(), storage.NewMockStorage())
	repo.DisableDifficulty()
	repo.DisableSplitProtection()
	base := daaHeader(bitcoin.Hash32{}, 0, daaT0, 1)
	repo.MockLatest(ctx, base, daaBaseHeight, new(big.Int).Lsh(big.NewInt(1), 80))
	prev := *base.BlockHash()
	for i := 1; i <= 150; i++ {
		h := daaHeader(prev, i, ts(i, c.Last), 0)
		h.Bits = 0x2100ffff
		if err := repo.ProcessHeader(ctx, h); err != nil {
			return []string{"harness: low-work chain: " + err.Error()}
		}
		prev = *h.BlockHash()
	}
	if w := blockProof(0x2100ffff); w.Cmp(big.NewInt(1)) != 0 {
		return []string{"harness: bits 0x2100ffff are not one unit of work"}
	}
	want := uint32(0x1d00ffff)
	if c.Proj1 > 0 {
		// target = (2^256 - PW) / PW + 1 for a projected work of 1 or 2 is far above the limit as well
		want = requiredBits(big.NewInt(int64(144+c.LastSel-c.FirstSel)), big.NewInt(0), int64(c.Span))
	}
	got, err := repo.VerifTarget(ctx, prev, daaBaseHeight+151)
	if err != nil {
		out = append(out, "low-work chain: target error "+err.Error())
	} else if got != want {
		out = append(out, fmt.Sprintf("low-work chain: required bits 0x%08x, the rule (projected work %d) gives 0x%08x", got, c.Proj1, want))
	}
	return out
}

// daaFork: the same as the main query but asked on a fork whose last window carries the case's
// pattern while the main chain carries another; the first window is shared history.
func daaFork(ctx context.Context, c *daaCase) []string {
	var out []string
	repo := headers.NewRepository(headers.DefaultConfig(), storage.NewMockStorage())
	repo.DisableDifficulty()
	repo.DisableSplitProtection()
	base := daaHeader(bitcoin.Hash32{}, 0, daaT0, 1)
	baseWork := new(big.Int).Lsh(big.NewInt(1), 80)
	repo.MockLatest(ctx, base, daaBaseHeight, baseWork)
	ts := func(i int, lastWin []int) uint32 {
		switch {
		case i >= 4 && i <= 6:
			return uint32(daaT0 + 400000 + c.First[i-4])
		case i >= 148 && i <= 150 && lastWin != nil:
			return uint32(daaT0 + 400000 + lastWin[i-148])
		}
		return uint32(daaT0 + 1000 + i*7)
	}
	cum := map[int]*big.Int{0: baseWork}
	hashes := map[int]bitcoin.Hash32{0: *base.BlockHash()}
	for i := 1; i <= 150; i++ {
		h := daaHeader(hashes[i-1], i, ts(i, nil), 0) // the main chain's last window is plain
		if err := repo.ProcessHeader(ctx, h); err != nil {
			return []string{"harness: " + err.Error()}
		}
		hashes[i] = *h.BlockHash()
		cum[i] = new(big.Int).Add(cum[i-1], blockProof(h.Bits))
	}
	fcum := map[int]*big.Int{140: cum[140]}
	fh := map[int]bitcoin.Hash32{140: hashes[140]}
	for i := 141; i <= 150; i++ {
		h := daaHeader(fh[i-1], i, ts(i, c.Last), 3)
		if err := repo.ProcessHeader(ctx, h); err != nil {
			return []string{"harness(fork): " + err.Error()}
		}
		fh[i] = *h.BlockHash()
		fcum[i] = new(big.Int).Add(fcum[i-1], blockProof(h.Bits))
	}
	want := requiredBits(fcum[147+c.LastSel], cum[3+c.FirstSel], int64(c.Span))
	got, err := repo.VerifTarget(ctx, fh[150], daaBaseHeight+151)
	if err != nil {
		out = append(out, "fork: target error "+err.Error())
	} else if got != want {
		out = append(out, fmt.Sprintf("fork: required bits 0x%08x, the network's rule applied to the fork's own history gives 0x%08x", got, want))
	}
	return out
}

func daaMain(args []string) int {
	fs := flag.NewFlagSet("daa", flag.ExitOnError)
	mode := fs.String("mode", "cases", "cases | real | mutate | bits")
	in := fs.String("in", "", "TLC output with CASE lines")
	seed := fs.Int64("seed", 1, "seed")
	sample := fs.Int("sample", 0, "if > 0: run only every n-th case (by seed)")
	repoDir := fs.String("repo", "/repo", "repository working tree (fixtures)")
	workers := fs.Int("workers", 16, "workers")
	fs.Parse(args)
	ctx := logger.ContextWithNoLogger(context.Background())
	switch *mode {
	case "cases":
		var lines []string
		if err := behaviourLines(*in, "CASE", func(idx int, line string) { lines = append(lines, line) }); err != nil {
			fmt.Fprintln(os.Stderr, err)
			return 2
		}
		type div struct {
			Msg  string  `json:"msg"`
			Case daaCase `json:"case"`
		}
		var mu sync.Mutex
		divs := []div{}
		sigs := map[string]int{}
		n := 0
		clamps := map[string]int{}
		ties := 0
		jobs := make(chan string, 64)
		var wg sync.WaitGroup
		for i := 0; i < *workers; i++ {
			wg.Add(1)
			go func() {
				defer wg.Done()
				for line := range jobs {
					var c daaCase
					if json.Unmarshal([]byte(line), &c) != nil {
						continue
					}
					msgs := append(daaRun(ctx, &c), daaFork(ctx, &c)...)
					mu.Lock()
					n++
					switch {
					case c.Raw < 72*600:
						clamps["below minimum"]++
					case c.Raw > 288*600:
						clamps["above maximum"]++
					default:
						clamps["in range"]++
					}
					if c.Raw < 0 {
						clamps["negative"]++
					}
					if c.Last[0] == c.Last[1] || c.Last[1] == c.Last[2] || c.Last[0] == c.Last[2] ||
						c.First[0] == c.First[1] || c.First[1] == c.First[2] || c.First[0] == c.First[2] {
						ties++
					}
					for _, m := range msgs {
						sigs[strings.SplitN(m, ":", 2)[0]]++
						if len(divs) < 40 {
							divs = append(divs, div{Msg: m, Case: c})
						}
					}
					mu.Unlock()
				}
			}()
		}
		for i, l := range lines {
			if *sample > 0 && (int64(i)+*seed)%int64(*sample) != 0 {
				continue
			}
			jobs <- l
		}
		close(jobs)
		wg.Wait()
		json.NewEncoder(os.Stdout).Encode(map[string]interface{}{"cases": n, "clamp_classes": clamps, "cases_with_ties": ties,
			"signatures": sigs, "divergences": divs})
	case "real":
		return daaReal(ctx, *repoDir)
	case "mutate":
		return daaMutate(ctx, *repoDir, *seed)
	case "bits":
		return daaBits(ctx)
	}
	return 0
}

// hashMeets: the header's hash, as a number, does not exceed the target its own bits encode.
func hashMeets(h *wire.BlockHeader) bool {
	hash := h.BlockHash()
	rev := make([]byte, 32)
	for i := 0; i < 32; i++ {
		rev[i] = hash[31-i]
	}
	return new(big.Int).SetBytes(rev).Cmp(decodeCompact(h.Bits)) <= 0
}

// daaReal: every header of the real chain in the fixtures is accepted with the difficulty check on,
// on the main chain and (a stretch of them) as a fork branch.
func daaReal(ctx context.Context, repoDir string) int {
	res := map[string]interface{}{}
	problems := []string{}
	total := 0
	for _, fx := range []struct {
		name   string
		height int
		work   string
	}{{"headers_556000.txt", 556000, "d167cf38dd7a9c078a40d5"}, {"headers_725000.txt", 725000, "1208c3e1a7a4b4b0c6e2e6e"}} {
		hs, err := loadFixture(repoDir, fx.name)
		if err != nil {
			fmt.Fprintln(os.Stderr, err)
			return 2
		}
		repo := headers.NewRepository(headers.DefaultConfig(), storage.NewMockStorage())
		repo.DisableDifficulty()
		work := &big.Int{}
		work.SetString(fx.work, 16)
		repo.MockLatest(ctx, hs[0], fx.height, work)
		for i := 1; i < len(hs); i++ {
			if i == 151 {
				repo.EnableDifficulty()
			}
			if err := repo.ProcessHeader(ctx, hs[i]); err != nil {
				problems = append(problems, fmt.Sprintf("real header %d refused: %v", fx.height+i, err))
				break
			}
			total++
		}
		// an easy-target header (its hash meets its own bits) whose bits are not the required ones must be
		// refused as an invalid target: on the tip, and as the first header of a fork
		for _, back := range []int{0, 1, 5} {
			parent := hs[len(hs)-1-back]
			easy := &wire.BlockHeader{Version: 0x20000000, PrevBlock: *parent.BlockHash(), Timestamp: parent.Timestamp + 600,
				Bits: 0x207fffff, Nonce: 1}
			for !hashMeets(easy) { // a couple of tries: the target is half of the hash space
				easy.Nonce++
			}
			err := repo.ProcessHeader(ctx, easy)
			if cls := hdrClassify(err); cls != "badbits" {
				problems = append(problems, fmt.Sprintf("%s: a header with easy bits 0x207fffff %d below the tip answered %s, want invalid target", fx.name, back, cls))
			}
			// the real next header's bits with a wrong (easier) exponent
			wrong := *parent
			wrong.PrevBlock = *parent.BlockHash()
			wrong.Bits = parent.Bits + 0x01000000
			if cls := hdrClassify(repo.ProcessHeader(ctx, &wrong)); cls != "badbits" && cls != "badwork" {
				problems = append(problems, fmt.Sprintf("%s: a header with bits one exponent too easy %d below the tip answered %s", fx.name, back, cls))
			}
		}
	}
	problems = append(problems, daaActivation(ctx, repoDir)...)
	problems = append(problems, daaLowWork(ctx)...)
	problems = append(problems, daaOvertaken(ctx, repoDir)...)
	res["real_headers_accepted"] = total
	res["problems"] = problems
	json.NewEncoder(os.Stdout).Encode(res)
	return 0
}

// daaMutate: single-field mutations of real headers. The verdict is predicted independently: hash
// against the target of the header's own bits, then the parent, then the required bits.
func daaMutate(ctx context.Context, repoDir string, seed int64) int {
	rng := rand.New(rand.NewSource(seed))
	hs, err := loadFixture(repoDir, "headers_556000.txt")
	if err != nil {
		fmt.Fprintln(os.Stderr, err)
		return 2
	}
	repo := headers.NewRepository(headers.DefaultConfig(), storage.NewMockStorage())
	repo.DisableDifficulty()
	work := &big.Int{}
	work.SetString("d167cf38dd7a9c078a40d5", 16)
	repo.MockLatest(ctx, hs[0], 556000, work)
	upto := 900 + rng.Intn(200)
	for i := 1; i <= upto; i++ {
		if i == 151 {
			repo.EnableDifficulty()
		}
		if err := repo.ProcessHeader(ctx, hs[i]); err != nil {
			fmt.Fprintln(os.Stderr, "harness: real header refused", err)
			return 2
		}
	}
	problems := []string{}
	n := 0
	byVerdict := map[string]int{}
	next := hs[upto+1]
	for k := 0; k < 3000; k++ {
		m := *next
		field := []string{"version", "prev", "merkle", "time", "bits", "nonce"}[rng.Intn(6)]
		switch field {
		case "version":
			m.Version ^= 1 << uint(rng.Intn(32))
		case "prev":
			m.PrevBlock[rng.Intn(32)] ^= byte(1 << uint(rng.Intn(8)))
		case "merkle":
			m.MerkleRoot[rng.Intn(32)] ^= byte(1 << uint(rng.Intn(8)))
		case "time":
			m.Timestamp ^= 1 << uint(rng.Intn(32))
		case "bits":
			m.Bits ^= 1 << uint(rng.Intn(24))
		case "nonce":
			m.Nonce ^= 1 << uint(rng.Intn(32))
		}
		// independent prediction
		hash := m.BlockHash()
		hv := new(big.Int)
		rev := make([]byte, 32)
		for i := 0; i < 32; i++ {
			rev[i] = hash[31-i]
		}
		hv.SetBytes(rev)
		want := "nil"
		switch {
		case m.Bits&0x00800000 != 0 || m.Bits&0x007fffff == 0 || m.Bits>>24 < 3:
			want = "badbits"
		case hv.Cmp(decodeCompact(m.Bits)) > 0:
			want = "badwork"
		case !m.PrevBlock.Equal(&next.PrevBlock):
			want = "unknown"
		case m.Bits != next.Bits:
			want = "badbits"
		}
		got := hdrClassify(repo.ProcessHeader(ctx, &m))
		n++
		byVerdict[want]++
		if got != want {
			problems = append(problems, fmt.Sprintf("real header %d with %s altered answered %s, predicted %s", 556000+upto+1, field, got, want))
			if len(problems) > 20 {
				break
			}
		}
		if got == "nil" {
			fmt.Fprintln(os.Stderr, "a mutated header was accepted; stopping")
			break
		}
	}
	json.NewEncoder(os.Stdout).Encode(map[string]interface{}{"mutations": n, "predicted": byVerdict, "problems": problems})
	return 0
}

// daaBits: every exponent byte x mantissa class, with and without the difficulty check, on a known
// parent. Run as an isolated worker: the outcome must be a verdict, never a dead process.
func daaBits(ctx context.Context) int {
	n := 0
	verdicts := map[string]int{}
	for _, disable := range []bool{false, true} {
		repo := headers.NewRepository(headers.DefaultConfig(), storage.NewMockStorage())
		repo.DisableSplitProtection()
		repo.InitializeWithGenesis()
		if disable {
			repo.DisableDifficulty()
		}
		parent := repo.LastHash()
		for exp := 0; exp < 256; exp++ {
			for _, mant := range []uint32{0, 1, 0x0000ff, 0x00ffff, 0x010000, 0x7fffff, 0x800000, 0x800001, 0xffffff, 0x00ff00} {
				bits := uint32(exp)<<24 | mant
				fmt.Printf("BITS %08x\n", bits)
				h := &wire.BlockHeader{Version: 1, PrevBlock: parent, Timestamp: 1231469665, Bits: bits, Nonce: uint32(n)}
				verdicts[hdrClassify(repo.ProcessHeader(ctx, h))]++
				n++
			}
		}
	}
	out, _ := json.Marshal(map[string]interface{}{"headers": n, "verdicts": verdicts})
	fmt.Printf("DONE %s\n", out)
	return 0
}

// daaLowWork: windows that hold next to no work (headers from below the activation height, whose bits nobody checked,
// with targets far above the proof-of-work limit) and long time spans: the projected work W*600/TS floors to a few
// units or to zero.  Whatever the rule makes of it, it is an answer - capped at the proof-of-work limit - and not a
// crash of the process.
func daaLowWork(ctx context.Context) (problems []string) {
	for _, bits := range []uint32{0x2100ffff, 0x207fffff, 0x2000ffff, 0x1f00ffff, 0x1e00ffff} {
		for _, step := range []int{600, 1200, 3000, 100000} {
			func() {
				what := fmt.Sprintf("window of headers with bits 0x%08x, %d s apart", bits, step)
				defer func() {
					if r := recover(); r != nil {
						problems = append(problems, fmt.Sprintf("PANIC in the difficulty rule (%s): %v", what, r))
					}
				}()
				hcfg := headers.DefaultConfig()
				repo := headers.NewRepository(hcfg, storage.NewMockStorage())
				repo.DisableDifficulty()
				repo.DisableSplitProtection()
				base := daaHeader(bitcoin.Hash32{}, 0, daaT0, 1)
				repo.MockLatest(ctx, base, daaBaseHeight, new(big.Int).Lsh(big.NewInt(1), 80))
				prev := *base.BlockHash()
				cum := []*big.Int{big.NewInt(0)}
				for i := 1; i <= 150; i++ {
					h := daaHeader(prev, i, uint32(daaT0+i*step), 0)
					h.Bits = bits
					if err := repo.ProcessHeader(ctx, h); err != nil {
						problems = append(problems, "harness: low-work chain refused with the difficulty check off: "+err.Error())
						return
					}
					prev = *h.BlockHash()
					cum = append(cum, new(big.Int).Add(cum[i-1], blockProof(bits)))
				}
				// strictly increasing timestamps: the medians are the middle blocks of the two windows
				span := int64(144 * step)
				if span > 288*600 {
					span = 288 * 600
				}
				if span < 72*600 {
					span = 72 * 600
				}
				w := new(big.Int).Sub(cum[149], cum[5])
				w.Mul(w, big.NewInt(600))
				w.Div(w, big.NewInt(span))
				want := uint32(0x1d00ffff) // nothing to project: the cap
				if w.Sign() > 0 {
					want = requiredBits(cum[149], cum[5], span)
				}
				got, err := repo.VerifTarget(ctx, prev, daaBaseHeight+151)
				if err != nil {
					problems = append(problems, fmt.Sprintf("%s: target error %v", what, err))
				} else if got != want {
					problems = append(problems, fmt.Sprintf("%s: required bits 0x%08x, the network's rule capped at the limit gives 0x%08x", what, got, want))
				}
				// and the header itself is decided, not crashed on
				next := daaHeader(prev, 151, uint32(daaT0+151*step), 0)
				next.Bits = bits
				repo.EnableDifficulty()
				_ = repo.ProcessHeader(ctx, next)
			}()
		}
	}
	return problems
}

// daaOvertaken: "every header of the real chain is accepted" - also when a fork has overtaken it meanwhile.  The real
// chain up to K, a three header fork from K-2 that becomes the most-work chain, then the real headers K+1, K+2, ...
// with every check on: each is judged against its own branch's history and accepted, and the real chain is the
// reported chain again as soon as it is the heavier one.
func daaOvertaken(ctx context.Context, repoDir string) (problems []string) {
	defer func() {
		if r := recover(); r != nil {
			problems = append(problems, fmt.Sprintf("PANIC while the real chain wins back: %v", r))
		}
	}()
	hs, err := loadFixture(repoDir, "headers_725000.txt")
	if err != nil {
		return []string{"harness: " + err.Error()}
	}
	for _, K := range []int{400, 1000} {
		if K+12 >= len(hs) {
			continue
		}
		for _, depth := range []int{1, 2} {
			hcfg := headers.DefaultConfig()
			repo := headers.NewRepository(hcfg, storage.NewMockStorage())
			repo.DisableDifficulty()
			work := &big.Int{}
			work.SetString("1208c3e1a7a4b4b0c6e2e6e", 16)
			repo.MockLatest(ctx, hs[0], 725000, work)
			for i := 1; i <= K; i++ {
				if i == 151 {
					repo.EnableDifficulty()
				}
				if err := repo.ProcessHeader(ctx, hs[i]); err != nil {
					return append(problems, fmt.Sprintf("harness: real header %d refused: %v", 725000+i, err))
				}
			}
			// the fork: depth+1 headers on top of real header K-depth, the bits of the real chain, nobody checks
			// their hashes (difficulty off while they arrive)
			repo.DisableDifficulty()
			prev := *hs[K-depth].BlockHash()
			for j := 0; j <= depth; j++ {
				f := &wire.BlockHeader{Version: 0x20000000, PrevBlock: prev, Timestamp: hs[K-depth].Timestamp + uint32(600*(j+1)) + 7,
					Bits: hs[K].Bits, Nonce: uint32(1000 + j)}
				f.MerkleRoot[0] = byte(j + 1)
				if err := repo.ProcessHeader(ctx, f); err != nil {
					return append(problems, "harness: fork header refused with the difficulty check off: "+err.Error())
				}
				prev = *f.BlockHash()
			}
			if last := repo.LastHash(); last.Equal(hs[K].BlockHash()) {
				return append(problems, "harness: the fork did not overtake the real chain")
			}
			repo.EnableDifficulty()
			for i := K + 1; i <= K+10; i++ {
				if err := repo.ProcessHeader(ctx, hs[i]); err != nil {
					problems = append(problems, fmt.Sprintf("real header %d refused after a %d header fork overtook the real chain at %d: %v",
						725000+i, depth+1, 725000+K, err))
					break
				}
			}
			if last := repo.LastHash(); len(problems) == 0 && !last.Equal(hs[K+10].BlockHash()) {
				problems = append(problems, fmt.Sprintf("after the real chain grew ten headers past a %d header fork, the reported tip (height %d) is not the real header %d",
					depth+1, repo.Height(), 725000+K+10))
			}
		}
	}
	return problems
}

// daaActivation: "from the difficulty-algorithm activation height (556767) on" - the very first height, with the
// required-split check (which on mainnet pins the header of that height by hash) switched off as on a repository
// configured for another network: the real chain to 556766, then headers at 556767 whose hashes meet their own, wrong,
// bits.  They are refused as an invalid target; the real header of that height is accepted.
func daaActivation(ctx context.Context, repoDir string) (problems []string) {
	defer func() {
		if r := recover(); r != nil {
			problems = append(problems, fmt.Sprintf("PANIC at the activation height: %v", r))
		}
	}()
	hs, err := loadFixture(repoDir, "headers_556000.txt")
	if err != nil {
		return []string{"harness: " + err.Error()}
	}
	const act = 556767 - 556000
	if len(hs) <= act+2 {
		return []string{"harness: fixture does not reach the activation height"}
	}
	repo := headers.NewRepository(headers.DefaultConfig(), storage.NewMockStorage())
	repo.DisableDifficulty()
	repo.DisableSplitProtection()
	work := &big.Int{}
	work.SetString("d167cf38dd7a9c078a40d5", 16)
	repo.MockLatest(ctx, hs[0], 556000, work)
	for i := 1; i < act; i++ {
		if i == 151 {
			repo.EnableDifficulty()
		}
		if err := repo.ProcessHeader(ctx, hs[i]); err != nil {
			return []string{fmt.Sprintf("harness: real header %d refused: %v", 556000+i, err)}
		}
	}
	parent := hs[act-1]
	for _, bits := range []uint32{0x207fffff, 0x2100ffff, 0x1d00ffff, hs[act].Bits + 0x00010000} {
		if bits == hs[act].Bits {
			continue
		}
		easy := &wire.BlockHeader{Version: 0x20000000, PrevBlock: *parent.BlockHash(), Timestamp: parent.Timestamp + 600, Bits: bits, Nonce: 1}
		tries := 0
		for !hashMeets(easy) && tries < 200000 {
			easy.Nonce++
			tries++
		}
		if !hashMeets(easy) {
			continue // a target too hard to meet by trial: such a header is refused for its hash anyway
		}
		if cls := hdrClassify(repo.ProcessHeader(ctx, easy)); cls != "badbits" {
			problems = append(problems, fmt.Sprintf("a header at the activation height 556767 with bits 0x%08x (hash meets them) answered %s, want invalid target", bits, cls))
		}
	}
	for i := act; i < act+3; i++ {
		if err := repo.ProcessHeader(ctx, hs[i]); err != nil {
			problems = append(problems, fmt.Sprintf("real header %d refused (split protection off): %v", 556000+i, err))
			break
		}
	}
	return problems
}
