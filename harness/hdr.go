package main

// hdr: replay of HeaderChainGen behaviours (spec -> code) on the real headers.Repository.
//
// One abstract pool block is mapped to a run of S real headers ("stretch"), so that the same TLC
// behaviours cross the 1000-header file boundaries and the prune depth of the implementation.

import (
	"bufio"
	"bytes"
	"context"
	"encoding/binary"
	"encoding/json"
	"flag"
	"fmt"
	"math/big"
	"os"
	"sort"
	"strings"
	"sync"

	"github.com/pkg/errors"
	"github.com/tokenized/bitcoin_reader/headers"
	"github.com/tokenized/logger"
	"github.com/tokenized/pkg/bitcoin"
	"github.com/tokenized/pkg/merkle_proof"
	"github.com/tokenized/pkg/storage"
	"github.com/tokenized/pkg/wire"
)

func init() { subcommands["hdr"] = hdrMain }

type hdrExp struct {
	Verdict   string   `json:"verdict"`
	Tip       int      `json:"tip"`
	Chain     []int    `json:"chain"`
	Delta     []int    `json:"delta"`
	Acc       []int    `json:"acc"`
	Unsure    []int    `json:"unsure"`
	FloorB    int      `json:"floorB"`
	Invalid   []int    `json:"invalid"`
	Best      []int    `json:"best"`
	NSubs     int      `json:"nsubs"`
	Ever      []int    `json:"ever"`
	SavedWork int      `json:"savedWork"`
	MaxTips   []int    `json:"maxtips"`
	Alts      []string `json:"alts"` // every refusal reason that applies (C08 does not order them)
}

type hdrOp struct {
	Op  string `json:"op"`
	B   int    `json:"b"`
	Exp hdrExp `json:"exp"`
}

type hdrBeh struct {
	Parent []int   `json:"parent"`
	Work   []int   `json:"work"`
	Ops    []hdrOp `json:"ops"`
}

type hdrDiv struct {
	Prop string `json:"prop"`
	Step int    `json:"step"`
	Op   string `json:"op"`
	B    int    `json:"b"`
	Msg  string `json:"msg"`
	Beh  int    `json:"beh"`
	Sig  string `json:"sig"`
	// shape facts used by the known-findings matcher
	Facts map[string]interface{} `json:"facts,omitempty"`
}

type hdrOpts struct {
	S, D, P   int
	Crash     bool // enumerate crash images of every clean/save (C12)
	Twin      bool // compare with a twin repository that never sees refused submissions (C08)
	RealClean bool // use the exported Clean/Load (prune depth 10000) instead of the hooks
	Probe     bool // C19 probe: at a seed-chosen step, submit each peer chain's reply and stop
	ProbeEnd  bool // C19 probe after the last step
	Proofs    bool // C18: verify merkle proofs into every pool block after every operation
	LiveLoad  bool // "load" is Load on the repository object in use (not on a fresh one, as after a restart)
	Seed      int64
}

var hdrBits = map[int]uint32{1: 0x1d00ffff, 2: 0x1c7fff80, 3: 0x1c555500}

// journaling store used for crash-point enumeration
type jop struct {
	key    string
	body   []byte
	remove bool
}

type jstore struct {
	*storage.MockStorage
	journal []jop
	on      bool
}

func (s *jstore) Write(ctx context.Context, key string, body []byte, o *storage.Options) error {
	if s.on {
		s.journal = append(s.journal, jop{key: key, body: append([]byte{}, body...)})
	}
	return s.MockStorage.Write(ctx, key, body, o)
}

func (s *jstore) Remove(ctx context.Context, key string) error {
	if s.on {
		s.journal = append(s.journal, jop{key: key, remove: true})
	}
	return s.MockStorage.Remove(ctx, key)
}

func snapshotStore(m *storage.MockStorage) map[string][]byte {
	r := map[string][]byte{}
	m.Data.Range(func(k, v interface{}) bool {
		r[k.(string)] = append([]byte{}, v.([]byte)...)
		return true
	})
	return r
}

type hdrWorld struct {
	o       hdrOpts
	beh     *hdrBeh
	behIdx  int
	hdrs    map[int][]*wire.BlockHeader
	idOf    map[bitcoin.Hash32][2]int // hash -> (block, index in run)
	genesis bitcoin.Hash32
	repo    *headers.Repository
	store   *jstore
	subs    []<-chan *wire.BlockHeader
	recon   [][]bitcoin.Hash32 // per subscriber: reconstructed chain of hashes
	ctx     context.Context
	unit    *big.Int
	genWork *big.Int

	stats *hdrStats
	div   []hdrDiv
	// the implementation reported another tip of maximal work than this behaviour assumes: the
	// behaviour generated for that choice is the one that is compared, this one stops
	tieStop bool
	sawTie  bool
}

type hdrStats struct {
	sync.Mutex
	Behaviours  int            `json:"behaviours"`
	Steps       int            `json:"steps"`
	Comparisons map[string]int `json:"comparisons"`
	CrashImages int            `json:"crash_images"`
	CrashWrites int            `json:"crash_writes"`
	OpsByKind   map[string]int `json:"ops_by_kind"`
	Verdicts    map[string]int `json:"verdicts"`
	Reorgs      int            `json:"reorgs"`
	MaxHeight   int            `json:"max_height"`
	Truncated   map[string]int `json:"truncated"`
	TieStates   int            `json:"tie_states"`   // steps replayed whose expected state has several most-work tips
	TieStopped  int            `json:"tie_stopped"`  // behaviours stopped because the implementation chose another allowed tip
	TieFollowed int            `json:"tie_followed"` // behaviours with at least one tie state replayed to their end
}

func (w *hdrWorld) cmp(prop string) {
	w.stats.Lock()
	w.stats.Comparisons[prop]++
	w.stats.Unlock()
}

func (w *hdrWorld) parentOf(b int) int { return w.beh.Parent[b-1] }

func (w *hdrWorld) heightOf(b int) int {
	h := 0
	for b != 0 {
		h++
		b = w.parentOf(b)
	}
	return h
}

func (w *hdrWorld) lastHash(b int) bitcoin.Hash32 {
	if b == 0 {
		return w.genesis
	}
	hs := w.headersOf(b)
	return *hs[len(hs)-1].BlockHash()
}

func (w *hdrWorld) firstHash(b int) bitcoin.Hash32 {
	if b == 0 {
		return w.genesis
	}
	return *w.headersOf(b)[0].BlockHash()
}

func (w *hdrWorld) headersOf(b int) []*wire.BlockHeader {
	if hs, ok := w.hdrs[b]; ok {
		return hs
	}
	prev := w.lastHash(w.parentOf(b))
	var hs []*wire.BlockHeader
	for i := 0; i < w.o.S; i++ {
		h := &wire.BlockHeader{Version: 1, PrevBlock: prev,
			Timestamp: uint32(1600000000 + b*100000 + i), Bits: hdrBits[w.beh.Work[b-1]],
			Nonce: uint32(b*100000 + i)}
		h.MerkleRoot[0] = byte(b)
		h.MerkleRoot[1] = byte(i)
		h.MerkleRoot[2] = byte(i >> 8)
		if i == 0 && w.o.Proofs {
			// the first header of the run commits to a small real transaction set (C18)
			_, root := merklePath(w.proofIDs(b), 0)
			h.MerkleRoot = root
		}
		hs = append(hs, h)
		prev = *h.BlockHash()
		w.idOf[prev] = [2]int{b, i}
	}
	w.hdrs[b] = hs
	return hs
}

func (w *hdrWorld) newRepo(store storage.Storage) *headers.Repository {
	cfg := headers.DefaultConfig()
	cfg.MaxBranchDepth = w.o.D * w.o.S
	repo := headers.NewRepository(cfg, store)
	repo.DisableDifficulty()
	repo.DisableSplitProtection()
	return repo
}

func hdrClassify(err error) string {
	if err == nil {
		return "nil"
	}
	switch errors.Cause(err) {
	case headers.ErrUnknownHeader:
		return "unknown"
	case headers.ErrHeaderMarkedInvalid:
		return "invalid"
	case headers.ErrBeyondMaxBranchDepth:
		return "toodeep"
	case headers.ErrWrongChain:
		return "wrongchain"
	case headers.ErrNotEnoughWork:
		return "badwork"
	case headers.ErrInvalidTarget:
		return "badbits"
	}
	return "other:" + err.Error()
}

func wantClass(v string) string {
	if v == "ok" || v == "known" {
		return "nil"
	}
	return v
}

func inSet(xs []int, x int) bool {
	for _, y := range xs {
		if x == y {
			return true
		}
	}
	return false
}

func denum(s string) string {
	return strings.Map(func(r rune) rune {
		if r >= '0' && r <= '9' {
			return '#'
		}
		return r
	}, s)
}

// fail records a failed comparison. A comparison can belong to several properties ("C09+C11"): a
// wrong lookup after a Load contradicts both "lookups agree with the tree" and "Load restores the
// same repository".
func (w *hdrWorld) fail(prop string, step int, op hdrOp, msg string) {
	for _, p := range strings.Split(prop, "+") {
		dup := false
		for _, d := range w.div {
			if d.Prop == p && d.Step == step && d.Msg == msg {
				dup = true
			}
		}
		if dup {
			continue
		}
		w.div = append(w.div, hdrDiv{Prop: p, Step: step, Op: op.Op, B: op.B, Msg: msg,
			Beh: w.behIdx, Sig: p + " " + denum(msg)})
	}
}

// lookupProp: lookups belong to C09 and to the property of the operation that must preserve them.
func (w *hdrWorld) lookupProp(op hdrOp) string {
	switch op.Op {
	case "clean":
		return "C09+C10"
	case "save", "load", "legacy":
		return "C09+C11"
	case "mark", "unmark":
		return "C09+C17"
	}
	return "C09"
}

// sampleHeights returns the heights at which the chain is compared.
func (w *hdrWorld) sampleHeights(height int) []int {
	var r []int
	if height <= 80 {
		for h := 0; h <= height; h++ {
			r = append(r, h)
		}
		return r
	}
	seen := map[int]bool{}
	add := func(h int) {
		if h >= 0 && h <= height && !seen[h] {
			seen[h] = true
			r = append(r, h)
		}
	}
	S := w.o.S
	for h := 0; h <= height+1; h += S {
		add(h - 1)
		add(h)
		add(h + 1)
	}
	for h := 0; h <= height+1; h += 1000 {
		add(h - 1)
		add(h)
		add(h + 1)
	}
	add(height)
	add(height - 1)
	sort.Ints(r)
	return r
}

// project builds a canonical text rendering of everything observable without mutation. It is
// used to compare "before" and "after" for operations that must change nothing.
func (w *hdrWorld) project() string {
	var sb strings.Builder
	repo := w.repo
	height := repo.Height()
	lh := repo.LastHash()
	fmt.Fprintf(&sb, "tip=%s h=%d w=%s\n", lh.String(), height, repo.AccumulatedWork().Text(16))
	for _, h := range w.sampleHeights(height) {
		hash, err := repo.Hash(w.ctx, h)
		if err != nil {
			fmt.Fprintf(&sb, "H%d err %s\n", h, hdrClassify(err))
		} else {
			fmt.Fprintf(&sb, "H%d %s\n", h, hash.String())
		}
	}
	for b := 1; b <= len(w.beh.Parent); b++ {
		// do not fabricate headers of blocks whose parent chain has not been built yet
		for k, hash := range []bitcoin.Hash32{w.firstHash(b), w.lastHash(b)} {
			hh := repo.HashHeight(hash)
			ch, isL, cerr := repo.CheckHeader(w.ctx, hash)
			fmt.Fprintf(&sb, "B%d.%d hh=%d ch=%d l=%v e=%s\n", b, k, hh, ch, isL, hdrClassify(cerr))
		}
	}
	return sb.String()
}

func (w *hdrWorld) expectedWork(chain []int) *big.Int {
	r := new(big.Int).Set(w.genWork)
	for _, b := range chain {
		if b == 0 {
			continue
		}
		x := new(big.Int).Mul(w.unit, big.NewInt(int64(w.beh.Work[b-1]*w.o.S)))
		r.Add(r, x)
	}
	return r
}

func (w *hdrWorld) doClean() error {
	if w.o.RealClean {
		return w.repo.Clean(w.ctx)
	}
	return w.repo.VerifClean(w.ctx, w.o.P*w.o.S)
}

func (w *hdrWorld) doLoad(r *headers.Repository) error {
	if w.o.RealClean {
		return r.Load(w.ctx)
	}
	return r.VerifLoad(w.ctx, w.o.P*w.o.S)
}

// applyStream performs a subscriber's reconstruction: attach the header to its previous hash,
// discarding what was above it.
func applyStream(chain []bitcoin.Hash32, h *wire.BlockHeader) ([]bitcoin.Hash32, bool) {
	for i := len(chain) - 1; i >= 0; i-- {
		if chain[i].Equal(&h.PrevBlock) {
			return append(chain[:i+1:i+1], *h.BlockHash()), true
		}
	}
	return chain, false
}

func (w *hdrWorld) run() {
	w.ctx = logger.ContextWithNoLogger(context.Background())
	w.store = &jstore{MockStorage: storage.NewMockStorage()}
	w.repo = w.newRepo(w.store)
	w.repo.InitializeWithGenesis()
	w.genesis = w.repo.LastHash()
	w.genWork = new(big.Int).Set(w.repo.AccumulatedWork())
	w.unit = bitcoin.ConvertToWork(bitcoin.ConvertToDifficulty(0x1d00ffff))
	w.idOf[w.genesis] = [2]int{0, w.o.S - 1}
	N := len(w.beh.Parent)
	for b := 1; b <= N; b++ {
		w.headersOf(b)
	}
	S := w.o.S

	probeStep := -1
	if w.o.ProbeEnd && len(w.beh.Ops) > 0 {
		probeStep = len(w.beh.Ops) - 1
	} else if w.o.Probe && len(w.beh.Ops) > 0 {
		probeStep = int((w.o.Seed + int64(w.behIdx)*7919) % int64(len(w.beh.Ops)))
		if probeStep < 0 {
			probeStep = -probeStep
		}
	}

	var prevExp *hdrExp
	divergedAt := -1
	for step := range w.beh.Ops {
		op := w.beh.Ops[step]
		w.stats.Lock()
		w.stats.Steps++
		w.stats.OpsByKind[op.Op]++
		if op.Op == "submit" {
			w.stats.Verdicts[op.Exp.Verdict]++
			if len(op.Exp.Delta) > 1 {
				w.stats.Reorgs++
			}
		}
		w.stats.Unlock()

		var before string
		needBefore := op.Op == "clean" || op.Op == "save" ||
			(op.Op == "submit" && op.Exp.Verdict != "ok")
		if needBefore {
			before = w.project()
		}

		panicked := ""
		stop := false
		func() {
			defer func() {
				if r := recover(); r != nil {
					panicked = fmt.Sprint(r)
				}
			}()
			switch op.Op {
			case "submit":
				cls := "nil"
				failedAt := -1
				for i, h := range w.headersOf(op.B) {
					if err := w.repo.ProcessHeader(w.ctx, h); err != nil {
						cls = hdrClassify(err)
						failedAt = i
						break
					}
				}
				w.cmp("C08")
				altOK := false
				for _, a := range op.Exp.Alts {
					altOK = altOK || cls == wantClass(a)
				}
				if cls != wantClass(op.Exp.Verdict) && !altOK {
					lbl := "C08"
					if op.Exp.Verdict == "ok" {
						lbl = "C08+C01" // C01: "a submission that returns an error never leaves a strictly heavier accepted chain unreported"
					}
					w.fail(lbl, step, op, fmt.Sprintf("verdict got %s want %s", cls, op.Exp.Verdict))
				} else if failedAt > 0 {
					w.fail("C08", step, op, fmt.Sprintf("refused at header %d of the run", failedAt))
				}
			case "clean", "save":
				base := snapshotStore(w.store.MockStorage)
				w.store.journal = nil
				w.store.on = true
				if op.Op == "clean" {
					w.cmp("C10")
					if err := w.doClean(); err != nil {
						w.fail("C10", step, op, "clean error "+err.Error())
					}
				} else {
					w.cmp("C11")
					if err := w.repo.Save(w.ctx); err != nil {
						w.fail("C11", step, op, "save error "+err.Error())
					}
				}
				w.store.on = false
				if w.o.Crash {
					w.crashImages(step, op, base)
				}
			case "load":
				r2 := w.newRepo(w.store)
				if w.o.LiveLoad {
					r2 = w.repo
				}
				w.cmp("C11")
				if err := w.doLoad(r2); err != nil {
					w.fail("C11", step, op, "load error "+err.Error())
					stop = true
				} else {
					w.repo = r2
					w.subs = nil
					w.recon = nil
				}
			case "legacy":
				// a store written before branches existed: version-0 files with the chain to block op.B
				// (op.B = 0: an empty store); Load migrates it
				w.cmp("C11")
				store := &jstore{MockStorage: storage.NewMockStorage()}
				if op.B != 0 {
					g, err := w.repo.Header(w.ctx, 0)
					if err != nil {
						panic("harness: genesis header " + err.Error())
					}
					chain := []*wire.BlockHeader{g}
					var path []int
					for b := op.B; b != 0; b = w.parentOf(b) {
						path = append([]int{b}, path...)
					}
					for _, b := range path {
						chain = append(chain, w.headersOf(b)...)
					}
					for file := 0; file*1000 < len(chain); file++ {
						buf := &bytes.Buffer{}
						buf.WriteByte(0)
						for i := file * 1000; i < len(chain) && i < (file+1)*1000; i++ {
							if err := chain[i].Serialize(buf); err != nil {
								panic("harness: serialize " + err.Error())
							}
						}
						store.MockStorage.Write(w.ctx, fmt.Sprintf("headers/%08x", file), buf.Bytes(), nil)
					}
				}
				if len(op.Exp.Invalid) > 0 {
					// the store also holds a list of invalid-marked hashes (a file of its own)
					buf := &bytes.Buffer{}
					binary.Write(buf, binary.LittleEndian, uint32(len(op.Exp.Invalid)))
					for _, b := range op.Exp.Invalid {
						h := w.firstHash(b)
						h.Serialize(buf)
					}
					store.MockStorage.Write(w.ctx, "headers/invalid", buf.Bytes(), nil)
				}
				r2 := w.newRepo(store)
				if err := w.doLoad(r2); err != nil {
					w.fail("C11", step, op, "load of a legacy (version 0) store: "+err.Error())
					stop = true
				} else {
					w.repo = r2
					w.store = store
					w.subs = nil
					w.recon = nil
				}
			case "reload":
				w.cmp("C12")
				if msg := w.checkImage(w.store.MockStorage, op.Exp.Ever, op.Exp.SavedWork); msg != "" {
					w.fail("C12", step, op, "load not directly after save: "+msg)
				}
				stop = true
			case "subscribe":
				w.subs = append(w.subs, w.repo.GetNewHeadersAvailableChannel())
				var chain []bitcoin.Hash32
				for h := 0; h <= w.repo.Height(); h++ {
					hash, err := w.repo.Hash(w.ctx, h)
					if err != nil {
						break
					}
					chain = append(chain, *hash)
				}
				w.recon = append(w.recon, chain)
			case "mark":
				w.cmp("C17")
				if err := w.repo.MarkHeaderInvalid(w.ctx, w.firstHash(op.B)); err != nil {
					w.fail("C17", step, op, "mark error "+err.Error())
				}
				// MarkHeaderInvalid does not notify: subscribers are dropped (see the spec)
				w.subs = nil
				w.recon = nil
			case "unmark":
				w.cmp("C17")
				if err := w.repo.MarkHeaderNotInvalid(w.ctx, w.firstHash(op.B)); err != nil {
					w.fail("C17", step, op, "unmark error "+err.Error())
				}
			}
		}()
		if panicked != "" {
			prop := map[string]string{"submit": "C08", "clean": "C10", "save": "C11", "load": "C11",
				"reload": "C12", "legacy": "C11", "mark": "C17", "unmark": "C17", "subscribe": "C07"}[op.Op]
			w.fail(prop, step, op, "PANIC "+panicked)
			return
		}
		if stop {
			return
		}

		w.observe(step, op, prevExp)
		if w.tieStop {
			w.stats.Lock()
			w.stats.TieStopped++
			w.stats.Unlock()
			return
		}

		if needBefore {
			after := w.project()
			if after != before {
				prop := "C08"
				if op.Op == "clean" {
					prop = "C10"
				} else if op.Op == "save" {
					prop = "C11"
				}
				w.cmp(prop)
				w.fail(prop, step, op, "observable state changed: "+firstDiff(before, after))
			}
		}

		if len(w.div) > 0 {
			// The first diverging step decides which property a behaviour is counted against.  The replay goes
			// on for a few steps all the same: a wrong lookup after a Clean (C09/C10) is often followed by a
			// refused submission or an unreported heavier chain (C08/C01), and the check of that property
			// should see it too.  On a tree without divergences this changes nothing.
			if divergedAt < 0 {
				divergedAt = step
			}
			if step-divergedAt >= 3 || len(w.div) > 40 {
				return
			}
		}

		if step == probeStep {
			w.probeLocators(step, op)
			return
		}
		e := op.Exp
		prevExp = &e
		if h := w.repo.Height(); h > 0 {
			w.stats.Lock()
			if h > w.stats.MaxHeight {
				w.stats.MaxHeight = h
			}
			w.stats.Unlock()
		}
	}
	_ = S
	if w.sawTie {
		w.stats.Lock()
		w.stats.TieFollowed++
		w.stats.Unlock()
	}
}

func firstDiff(a, b string) string {
	la, lb := strings.Split(a, "\n"), strings.Split(b, "\n")
	for i := 0; i < len(la) && i < len(lb); i++ {
		if la[i] != lb[i] {
			return fmt.Sprintf("before %q after %q", la[i], lb[i])
		}
	}
	return "length differs"
}

// observe compares the projection of the real repository with the specification's expectation.
func (w *hdrWorld) observe(step int, op hdrOp, prev *hdrExp) {
	S := w.o.S
	exp := op.Exp
	repo := w.repo
	N := len(w.beh.Parent)

	// ---- ties: C01 asks for a tip of maximal work; the specification leaves the choice open
	if len(exp.MaxTips) > 1 {
		w.sawTie = true
		w.stats.Lock()
		w.stats.TieStates++
		w.stats.Unlock()
		// only an accepting submission or a mark may choose among equal tips; Clean, Save and Load keep the tip
		mayChoose := (op.Op == "submit" && exp.Verdict == "ok") || op.Op == "mark"
		if id, ok := w.idOf[repo.LastHash()]; mayChoose && ok && id[0] != exp.Tip && id[1] == S-1 {
			for _, t := range exp.MaxTips {
				if t == id[0] {
					w.tieStop = true
					return
				}
			}
		}
	}

	// ---- C07: stream
	expStream := [][2]int{}
	for _, b := range exp.Delta {
		for i := 0; i < S; i++ {
			expStream = append(expStream, [2]int{b, i})
		}
	}
	if len(w.subs) != exp.NSubs {
		w.fail("C07", step, op, fmt.Sprintf("harness subscriber count %d, spec %d", len(w.subs), exp.NSubs))
	}
	for si, ch := range w.subs {
		var got [][2]int
		ok := true
	drain:
		for {
			select {
			case h, open := <-ch:
				if !open {
					break drain
				}
				id, known := w.idOf[*h.BlockHash()]
				if !known {
					id = [2]int{-1, -1}
				}
				got = append(got, id)
				var att bool
				w.recon[si], att = applyStream(w.recon[si], h)
				if !att {
					ok = false
				}
			default:
				break drain
			}
		}
		w.cmp("C07")
		if fmt.Sprint(got) != fmt.Sprint(expStream) {
			lbl := "C07"
			if op.Op == "submit" && exp.Verdict != "ok" {
				lbl = "C07+C08" // a refused (or already known) submission announced something: it left a trace
			}
			w.fail(lbl, step, op, fmt.Sprintf("subscriber %d stream got %v want %v (blocks %v)", si, compact(got, S), compact(expStream, S), exp.Delta))
		} else if !ok {
			w.fail("C07", step, op, fmt.Sprintf("subscriber %d could not attach a header", si))
		}
	}

	// ---- C01: tip and chain
	w.cmp("C01")
	tipID, ok := w.idOf[repo.LastHash()]
	if !ok || tipID[0] != exp.Tip || tipID[1] != S-1 {
		w.fail(w.tipProp(op), step, op, fmt.Sprintf("tip got block %v want %d", tipID, exp.Tip))
	}
	height := repo.Height()
	wantH := (len(exp.Chain) - 1) * S
	if height != wantH {
		w.fail(w.tipProp(op), step, op, fmt.Sprintf("height got %d want %d", height, wantH))
	}
	if ew := w.expectedWork(exp.Chain); repo.AccumulatedWork().Cmp(ew) != 0 {
		w.fail(w.tipProp(op), step, op, fmt.Sprintf("accumulated work got %s want %s", repo.AccumulatedWork().Text(16), ew.Text(16)))
	}
	var prevHash *bitcoin.Hash32
	prevHt := -2
	for _, ht := range w.sampleHeights(wantH) {
		if ht > height {
			continue
		}
		hash, err := repo.Hash(w.ctx, ht)
		if err != nil {
			w.fail(w.chainProp(op, ht, exp), step, op, fmt.Sprintf("Hash(%d) err %v", ht, err))
			prevHash = nil
			continue
		}
		wantB, wantI := 0, S-1
		if ht > 0 {
			wantB = exp.Chain[(ht-1)/S+1]
			wantI = (ht - 1) % S
		}
		id, known := w.idOf[*hash]
		if !known || id[0] != wantB || id[1] != wantI {
			w.fail(w.chainProp(op, ht, exp), step, op, fmt.Sprintf("Hash(%d) is block %v want %d/%d", ht, id, wantB, wantI))
		}
		hdr, err := repo.Header(w.ctx, ht)
		if err != nil {
			w.fail(w.chainProp(op, ht, exp), step, op, fmt.Sprintf("Header(%d) err %v", ht, err))
		} else {
			if !hdr.BlockHash().Equal(hash) {
				w.fail(w.chainProp(op, ht, exp), step, op, fmt.Sprintf("Header(%d) does not hash to Hash(%d)", ht, ht))
			}
			if prevHash != nil && prevHt == ht-1 && !hdr.PrevBlock.Equal(prevHash) {
				w.fail("C01", step, op, fmt.Sprintf("Header(%d).PrevBlock is not Hash(%d)", ht, ht-1))
			}
		}
		prevHash = hash
		prevHt = ht
	}
	if _, err := repo.Hash(w.ctx, height+1); errors.Cause(err) != headers.ErrHeightBeyondTip {
		w.fail("C01", step, op, fmt.Sprintf("Hash(tip+1) got %v want beyond tip", err))
	}

	// ---- C07: reconstruction equals the reported chain (relation between two observations)
	for si := range w.subs {
		w.cmp("C07")
		rc := w.recon[si]
		if len(rc) != height+1 {
			w.fail("C07", step, op, fmt.Sprintf("subscriber %d reconstructs a chain of length %d, repository reports height %d", si, len(rc)-1, height))
			continue
		}
		for _, ht := range w.sampleHeights(height) {
			hash, err := repo.Hash(w.ctx, ht)
			if err == nil && !hash.Equal(&rc[ht]) {
				w.fail("C07", step, op, fmt.Sprintf("subscriber %d reconstruction differs from reported chain at height %d", si, ht))
				break
			}
		}
	}

	// ---- C09: range queries agree with height queries
	for _, win := range [][2]int{{0, 3}, {height - 4, 10}, {height / 2, 4}, {999, 3}, {height - 1, 1}} {
		if win[0] < 0 || win[0] > height {
			continue
		}
		w.cmp("C09")
		// a range that reaches beyond the tip returns the best chain's headers up to the tip and nothing else:
		// what the header files hold above the tip (an abandoned or invalidated chain) is not part of it
		wantN := win[1]
		if win[0]+wantN-1 > height {
			wantN = height - win[0] + 1
		}
		hs, err := repo.GetHeaders(w.ctx, win[0], win[1])
		if err != nil {
			w.fail(w.rangeProp(op, win[0], exp), step, op, fmt.Sprintf("GetHeaders(%d,%d) err %v", win[0], win[1], err))
			continue
		}
		if len(hs) != wantN {
			w.fail(w.rangeProp(op, win[0], exp), step, op, fmt.Sprintf("GetHeaders(%d,%d) returned %d headers want %d", win[0], win[1], len(hs), wantN))
			continue
		}
		for i, hd := range hs {
			hash, err := repo.Hash(w.ctx, win[0]+i)
			if err == nil && !hd.BlockHash().Equal(hash) {
				w.fail(w.rangeProp(op, win[0], exp), step, op, fmt.Sprintf("GetHeaders(%d,%d)[%d] differs from Hash(%d)", win[0], win[1], i, win[0]+i))
				break
			}
		}
	}

	// ---- C09 / C17: lookups of every pool block
	// The best-chain flag is judged against the chain the repository itself reports.
	lp := w.lookupProp(op)
	// the genesis header is an ancestor of every tip, in memory or not
	if hh := repo.HashHeight(w.genesis); hh != 0 {
		w.cmp("C09")
		w.fail(lp, step, op, fmt.Sprintf("HashHeight(genesis) got %d want 0", hh))
	} else if ch, isL, cerr := repo.CheckHeader(w.ctx, w.genesis); cerr != nil || ch != 0 || !isL {
		w.fail(lp, step, op, fmt.Sprintf("CheckHeader(genesis) got %d,%v,%s want 0,true,nil", ch, isL, hdrClassify(cerr)))
	} else if _, ght, gl, gerr := repo.GetHeader(w.ctx, w.genesis); gerr != nil || ght != 0 || !gl {
		w.fail(lp, step, op, fmt.Sprintf("GetHeader(genesis) got height %d best %v %s", ght, gl, hdrClassify(gerr)))
	}
	for b := 1; b <= N; b++ {
		known := inSet(exp.Acc, b)
		unsure := inSet(exp.Unsure, b)
		ever := inSet(exp.Ever, b)
		hb := w.heightOf(b)
		for k, hash := range []bitcoin.Hash32{w.firstHash(b), w.lastHash(b)} {
			if S == 1 && k == 1 {
				continue
			}
			wantHt := (hb-1)*S + 1
			if k == 1 {
				wantHt = hb * S
			}
			hh := repo.HashHeight(hash)
			ch, isL, cerr := repo.CheckHeader(w.ctx, hash)
			gh, ght, gl, gerr := repo.GetHeader(w.ctx, hash)
			ph, pht := repo.PreviousHash(hash)
			// is it on the chain the repository reports?
			onReported := false
			if wantHt <= height {
				if rh, err := repo.Hash(w.ctx, wantHt); err == nil && rh.Equal(&hash) {
					onReported = true
				}
			}
			switch {
			case known && !unsure:
				w.cmp("C09")
				if hh != wantHt {
					w.fail(lp, step, op, fmt.Sprintf("HashHeight(block %d.%d) got %d want %d", b, k, hh, wantHt))
				}
				if cerr != nil || ch != wantHt {
					w.fail(lp, step, op, fmt.Sprintf("CheckHeader(block %d.%d) got %d,%s want %d", b, k, ch, hdrClassify(cerr), wantHt))
				} else if isL != onReported {
					w.fail(lp, step, op, fmt.Sprintf("CheckHeader(block %d.%d) in-best flag got %v, reported chain says %v", b, k, isL, onReported))
				}
				if gerr != nil {
					w.fail(lp, step, op, fmt.Sprintf("GetHeader(block %d.%d) err %s", b, k, hdrClassify(gerr)))
				} else {
					if !gh.BlockHash().Equal(&hash) {
						w.fail(lp, step, op, fmt.Sprintf("GetHeader(block %d.%d) returns a header with another hash", b, k))
					}
					if ght != wantHt {
						w.fail(lp, step, op, fmt.Sprintf("GetHeader(block %d.%d) height got %d want %d", b, k, ght, wantHt))
					}
					if gl != onReported {
						w.fail(lp, step, op, fmt.Sprintf("GetHeader(block %d.%d) in-best flag got %v, reported chain says %v", b, k, gl, onReported))
					}
				}
				// predecessor: promised while both are held in memory
				var wantPrev bitcoin.Hash32
				if k == 1 {
					wantPrev = *w.headersOf(b)[S-2].BlockHash()
				} else {
					wantPrev = w.lastHash(w.parentOf(b))
				}
				promised := !inSet(exp.Best, b) || hb > exp.FloorB+1
				if inSet(exp.Unsure, w.parentOf(b)) {
					promised = false
				}
				if ph != nil {
					if !ph.Equal(&wantPrev) || pht != wantHt-1 {
						w.fail(lp, step, op, fmt.Sprintf("PreviousHash(block %d.%d) wrong predecessor or height %d want %d", b, k, pht, wantHt-1))
					}
				} else if promised {
					w.fail(lp, step, op, fmt.Sprintf("PreviousHash(block %d.%d) not available", b, k))
				}
			case known && unsure:
				// Not promised to be retained, but what is reported about it must be right.
				w.cmp("C09")
				if hh != -1 && hh != wantHt {
					w.fail(lp, step, op, fmt.Sprintf("HashHeight(block %d.%d) got %d want %d", b, k, hh, wantHt))
				}
				if cerr == nil && (ch != wantHt || isL != onReported) {
					w.fail(lp, step, op, fmt.Sprintf("CheckHeader(dropped side block %d.%d) got %d,%v want %d,%v or unknown", b, k, ch, isL, wantHt, onReported))
				}
				if gerr == nil && (!gh.BlockHash().Equal(&hash) || ght != wantHt || gl != onReported) {
					w.fail(lp, step, op, fmt.Sprintf("GetHeader(dropped side block %d.%d) returns another header or wrong height/flag (%d,%v)", b, k, ght, gl))
				}
			case !ever:
				w.cmp("C09")
				if hh != -1 || cerr == nil || gerr == nil || ph != nil {
					w.fail(lp+"+C08", step, op, fmt.Sprintf("never accepted block %d.%d is reported known (HashHeight %d, CheckHeader %s, GetHeader %s)", b, k, hh, hdrClassify(cerr), hdrClassify(gerr)))
				}
			default: // accepted once, removed by an invalid mark
				w.cmp("C17")
				if cerr == nil && isL {
					w.fail("C17", step, op, fmt.Sprintf("block %d.%d is excluded by an invalid mark but reported in the most-work chain", b, k))
				}
				if gerr == nil && gl {
					w.fail("C17", step, op, fmt.Sprintf("block %d.%d is excluded by an invalid mark but GetHeader reports it in the most-work chain", b, k))
				}
				if onReported {
					w.fail("C17", step, op, fmt.Sprintf("block %d.%d is excluded by an invalid mark but is on the reported chain", b, k))
				}
			}
		}
	}

	if w.o.Proofs {
		w.observeProofs(step, op)
	}

	// ---- C11/C17: the invalid list as stored
	if op.Op == "save" || op.Op == "load" {
		w.cmp("C17")
		got, err := w.storedInvalid()
		if err != nil {
			w.fail("C11", step, op, "invalid list unreadable: "+err.Error())
		} else if fmt.Sprint(got) != fmt.Sprint(exp.Invalid) && !(len(got) == 0 && len(exp.Invalid) == 0) {
			w.fail("C17", step, op, fmt.Sprintf("stored invalid list got %v want %v", got, exp.Invalid))
		}
	}
}

// proofIDs is the transaction set the first header of block b's run commits to.
func (w *hdrWorld) proofIDs(b int) []bitcoin.Hash32 {
	n := b%6 + 1
	var ids []bitcoin.Hash32
	for i := 0; i < n; i++ {
		ids = append(ids, *bvTx(1 + (b+i)%15).TxHash())
	}
	return ids
}

// observeProofs (C18): a valid proof into the first header of every pool block, given with the header or
// with the block hash only, and the same proof with an altered txid.
func (w *hdrWorld) observeProofs(step int, op hdrOp) {
	exp := op.Exp
	S := w.o.S
	height := w.repo.Height()
	for b := 1; b <= len(w.beh.Parent); b++ {
		ids := w.proofIDs(b)
		pos := (step + b) % len(ids)
		path, _ := merklePath(ids, pos)
		hdr := w.headersOf(b)[0]
		hash := *hdr.BlockHash()
		wantHt := (w.heightOf(b)-1)*S + 1
		onReported := false
		if wantHt <= height {
			if rh, err := w.repo.Hash(w.ctx, wantHt); err == nil && rh.Equal(&hash) {
				onReported = true
			}
		}
		known := inSet(exp.Acc, b)
		unsure := inSet(exp.Unsure, b)
		ever := inSet(exp.Ever, b)
		for _, form := range []string{"header", "hash"} {
			for _, alter := range []bool{false, true} {
				txid := ids[pos]
				if alter {
					txid[5] ^= 0x40
				}
				p := &merkle_proof.MerkleProof{Index: pos, TxID: &txid, Path: append([]bitcoin.Hash32{}, path...)}
				if form == "header" {
					h := *hdr
					p.BlockHeader = &h
				} else {
					h := hash
					p.BlockHash = &h
				}
				ht, best, err := w.repo.VerifyMerkleProof(w.ctx, p)
				w.cmp("C18")
				what := fmt.Sprintf("proof into block %d (%s form%s)", b, form, map[bool]string{true: ", altered txid", false: ""}[alter])
				switch {
				case alter:
					if err == nil {
						w.fail("C18", step, op, what+" verified")
					}
				case known && !unsure:
					if err != nil {
						w.fail("C18", step, op, fmt.Sprintf("%s refused: %s", what, hdrClassify(err)))
					} else if ht != wantHt || best != onReported {
						w.fail("C18", step, op, fmt.Sprintf("%s verified with height %d best %v, want %d %v", what, ht, best, wantHt, onReported))
					}
				case known && unsure:
					if err == nil && (ht != wantHt || best != onReported) {
						w.fail("C18", step, op, fmt.Sprintf("%s verified with height %d best %v, want %d %v or a refusal", what, ht, best, wantHt, onReported))
					}
				case !ever:
					if err == nil {
						w.fail("C18", step, op, what+" verified although the header was never accepted")
					}
				default: // removed by an invalid mark
					if err == nil && best {
						w.fail("C18+C17", step, op, what+" reports a header excluded by an invalid mark as in the most-work chain")
					}
				}
			}
		}
	}
}

// Attribution helpers: the same comparison belongs to the property of the operation that is
// required to preserve it.
func (w *hdrWorld) tipProp(op hdrOp) string {
	switch op.Op {
	case "clean":
		return "C10+C01"
	case "save", "load", "legacy":
		return "C11+C01" // C01: "... interleaved at any point with Clean, Save and Load"
	case "mark", "unmark":
		return "C17"
	}
	return "C01"
}

func (w *hdrWorld) chainProp(op hdrOp, ht int, exp hdrExp) string {
	switch op.Op {
	case "clean":
		if ht < exp.FloorB*w.o.S {
			return "C10+C09"
		}
		return "C10"
	case "save", "load", "legacy":
		if ht < exp.FloorB*w.o.S {
			return "C11+C09"
		}
		return "C11"
	case "mark", "unmark":
		return "C17"
	}
	// best-chain history below the memory floor is served from storage: lookups (C09)
	if ht < exp.FloorB*w.o.S {
		return "C09+C01"
	}
	return "C01"
}

func (w *hdrWorld) rangeProp(op hdrOp, ht int, exp hdrExp) string {
	switch op.Op {
	case "clean":
		return "C10+C09"
	case "save", "load", "legacy":
		return "C11+C09"
	}
	return "C09"
}

func compact(ids [][2]int, S int) string {
	var sb strings.Builder
	for i, id := range ids {
		if i > 12 {
			sb.WriteString("...")
			break
		}
		if S == 1 {
			fmt.Fprintf(&sb, "%d ", id[0])
		} else {
			fmt.Fprintf(&sb, "%d.%d ", id[0], id[1])
		}
	}
	return "[" + strings.TrimSpace(sb.String()) + "]"
}

func (w *hdrWorld) storedInvalid() ([]int, error) {
	data, err := w.store.Read(w.ctx, "headers/invalid")
	if err != nil {
		if errors.Cause(err) == storage.ErrNotFound {
			return nil, nil
		}
		return nil, err
	}
	buf := bytes.NewReader(data)
	var count uint32
	if err := binary.Read(buf, binary.LittleEndian, &count); err != nil {
		return nil, err
	}
	var r []int
	for i := uint32(0); i < count; i++ {
		var h bitcoin.Hash32
		if err := h.Deserialize(buf); err != nil {
			return nil, err
		}
		id, ok := w.idOf[h]
		if !ok {
			r = append(r, -1)
		} else {
			r = append(r, id[0])
		}
	}
	sort.Ints(r)
	return r, nil
}

// crashImages materialises the storage as it would be after every prefix of the journalled
// Write/Remove sequence of one Clean or Save and judges a Load from it by the C12 relation.
func (w *hdrWorld) crashImages(step int, op hdrOp, base map[string][]byte) {
	j := w.store.journal
	w.stats.Lock()
	w.stats.CrashWrites += len(j)
	w.stats.Unlock()
	for k := 0; k <= len(j); k++ {
		img := storage.NewMockStorage()
		for key, body := range base {
			img.Write(w.ctx, key, body, nil)
		}
		for _, e := range j[:k] {
			if e.remove {
				img.Remove(w.ctx, e.key)
			} else {
				img.Write(w.ctx, e.key, e.body, nil)
			}
		}
		// work of the tip at the last *completed* Save: the spec's savedWork before this operation
		minWork := 0
		if step > 0 {
			minWork = w.beh.Ops[step-1].Exp.SavedWork
		}
		if k == len(j) && op.Op == "save" {
			minWork = op.Exp.SavedWork
		}
		w.cmp("C12")
		w.stats.Lock()
		w.stats.CrashImages++
		w.stats.Unlock()
		if msg := w.checkImage(img, op.Exp.Ever, minWork); msg != "" {
			var keys []string
			for _, e := range j[:k] {
				if e.remove {
					keys = append(keys, "rm:"+e.key)
				} else {
					keys = append(keys, e.key)
				}
			}
			w.fail("C12", step, op, fmt.Sprintf("crash after %d of %d writes of %s: %s", k, len(j), op.Op, msg))
			return
		}
	}
}

// checkImage loads a fresh repository from a storage image and judges it by the relation of C12:
// the load succeeds and reports a linked chain of ever-accepted headers from genesis with at
// least minWork abstract work.
func (w *hdrWorld) checkImage(img *storage.MockStorage, ever []int, minWork int) (msg string) {
	defer func() {
		if r := recover(); r != nil {
			msg = fmt.Sprintf("load PANIC %v", r)
		}
	}()
	if _, err := img.Read(w.ctx, "headers/branches/index"); err != nil {
		if _, err2 := img.Read(w.ctx, "headers/00000000"); err2 != nil {
			// Nothing was ever stored: a fresh start from genesis is what Load does (C11: empty storage).
			if minWork > 0 {
				return "storage empty after a completed save"
			}
		}
	}
	r2 := w.newRepo(img)
	if err := w.doLoad(r2); err != nil {
		return "load error " + err.Error()
	}
	S := w.o.S
	wk := 0
	prevB := 0
	height := r2.Height()
	var prevHash *bitcoin.Hash32
	for ht := 0; ht <= height; ht++ {
		hash, err := r2.Hash(w.ctx, ht)
		if err != nil {
			return fmt.Sprintf("Hash(%d) err %v", ht, err)
		}
		hdr, err := r2.Header(w.ctx, ht)
		if err != nil {
			return fmt.Sprintf("Header(%d) err %v", ht, err)
		}
		if !hdr.BlockHash().Equal(hash) {
			return fmt.Sprintf("Header(%d) does not hash to Hash(%d)", ht, ht)
		}
		if prevHash != nil && !hdr.PrevBlock.Equal(prevHash) {
			return fmt.Sprintf("Header(%d) is not linked to Hash(%d)", ht, ht-1)
		}
		prevHash = hash
		id, ok := w.idOf[*hash]
		if !ok {
			return fmt.Sprintf("Hash(%d) is no known header", ht)
		}
		if ht == 0 {
			if id[0] != 0 {
				return fmt.Sprintf("Hash(0) is block %d, not genesis", id[0])
			}
			continue
		}
		if !inSet(ever, id[0]) {
			return fmt.Sprintf("block %d was never accepted", id[0])
		}
		if id[1] == 0 && w.parentOf(id[0]) != prevB {
			return fmt.Sprintf("height %d: block %d is not a child of block %d", ht, id[0], prevB)
		}
		if id[1] == S-1 {
			wk += w.beh.Work[id[0]-1]
			prevB = id[0]
		}
	}
	lh := r2.LastHash()
	if prevHash == nil || !lh.Equal(prevHash) {
		return "LastHash differs from Hash(Height)"
	}
	if wk < minWork {
		return fmt.Sprintf("work %d less than %d at the last completed save", wk, minWork)
	}
	return ""
}

// probeLocators (C19): for every requested maximum the locator must be well formed, and for every
// chain of the pool a peer answering per protocol must return a header that connects. The
// submission mutates the repository, so the behaviour ends here.
func (w *hdrWorld) probeLocators(step int, op hdrOp) {
	// implemented in hdr_locator.go
	w.locatorProbe(step, op)
}

func hdrMain(args []string) int {
	fs := flag.NewFlagSet("hdr", flag.ExitOnError)
	var o hdrOpts
	fs.IntVar(&o.S, "s", 1, "stretch: real headers per abstract block")
	fs.IntVar(&o.D, "d", 1, "MaxDepth (abstract blocks)")
	fs.IntVar(&o.P, "p", 2, "prune depth (abstract blocks)")
	fs.BoolVar(&o.Crash, "crash", false, "enumerate crash images of every clean/save")
	fs.BoolVar(&o.Twin, "twin", false, "twin repository comparison for refusals")
	fs.BoolVar(&o.RealClean, "realclean", false, "use exported Clean/Load (prune depth 10000)")
	fs.BoolVar(&o.Probe, "probe", false, "C19 locator probe at a seed-chosen step")
	fs.BoolVar(&o.ProbeEnd, "probeend", false, "C19 locator probe after the last step")
	fs.BoolVar(&o.Proofs, "proofs", false, "C18: merkle proofs into every pool block after every operation")
	fs.BoolVar(&o.LiveLoad, "liveload", false, "load into the repository object in use")
	fs.Int64Var(&o.Seed, "seed", 1, "seed")
	workers := fs.Int("workers", 16, "parallel workers")
	in := fs.String("in", "", "behaviour file (jsonl); stdin if empty")
	maxDiv := fs.Int("maxdiv", 300, "max divergences reported in full")
	fs.Parse(args)

	var rd *bufio.Scanner
	if *in == "" {
		rd = bufio.NewScanner(os.Stdin)
	} else {
		f, err := os.Open(*in)
		if err != nil {
			fmt.Fprintln(os.Stderr, err)
			return 2
		}
		defer f.Close()
		rd = bufio.NewScanner(f)
	}
	rd.Buffer(make([]byte, 1<<20), 1<<26)

	stats := &hdrStats{Comparisons: map[string]int{}, OpsByKind: map[string]int{},
		Verdicts: map[string]int{}, Truncated: map[string]int{}}
	type job struct {
		idx  int
		line string
	}
	jobs := make(chan job, 64)
	var mu sync.Mutex
	divs := []hdrDiv{}
	sigCounts := map[string]int{}
	diverging := 0
	var wg sync.WaitGroup
	for i := 0; i < *workers; i++ {
		wg.Add(1)
		go func() {
			defer wg.Done()
			for j := range jobs {
				var beh hdrBeh
				if err := json.Unmarshal([]byte(j.line), &beh); err != nil {
					fmt.Fprintln(os.Stderr, "bad behaviour json:", err)
					continue
				}
				w := &hdrWorld{o: o, beh: &beh, behIdx: j.idx, hdrs: map[int][]*wire.BlockHeader{},
					idOf: map[bitcoin.Hash32][2]int{}, stats: stats}
				w.run()
				if o.Twin && len(w.div) == 0 {
					w.twin()
				}
				mu.Lock()
				stats.Behaviours++
				if len(w.div) > 0 {
					diverging++
					for _, d := range w.div {
						sigCounts[d.Sig]++
						if len(divs) < *maxDiv {
							d.Facts = w.facts(d)
							divs = append(divs, d)
						}
					}
				}
				mu.Unlock()
			}
		}()
	}
	idx := 0
	for rd.Scan() {
		line := rd.Text()
		if strings.TrimSpace(line) == "" {
			continue
		}
		jobs <- job{idx, line}
		idx++
	}
	close(jobs)
	wg.Wait()

	sort.Slice(divs, func(i, j int) bool {
		if divs[i].Beh != divs[j].Beh {
			return divs[i].Beh < divs[j].Beh
		}
		return divs[i].Step < divs[j].Step
	})
	out := map[string]interface{}{
		"stats":       stats,
		"diverging":   diverging,
		"divergences": divs,
		"signatures":  sigCounts,
		"opts":        map[string]interface{}{"S": o.S, "D": o.D, "P": o.P, "crash": o.Crash, "twin": o.Twin, "realclean": o.RealClean, "probe": o.Probe, "seed": o.Seed},
	}
	enc := json.NewEncoder(os.Stdout)
	enc.Encode(out)
	return 0
}

// facts describes the tree shape around a divergence for the known-findings matcher.
func (w *hdrWorld) facts(d hdrDiv) map[string]interface{} {
	f := map[string]interface{}{}
	if d.Step < len(w.beh.Ops) {
		op := w.beh.Ops[d.Step]
		f["verdict"] = op.Exp.Verdict
		f["delta_len"] = len(op.Exp.Delta)
		if d.Step > 0 {
			prev := w.beh.Ops[d.Step-1].Exp
			f["prev_tip"] = prev.Tip
			f["prev_op"] = w.beh.Ops[d.Step-1].Op
		}
		f["tip"] = op.Exp.Tip
		// Is the best chain at the last completed clean/save/load a prefix of the chain now? (false =
		// the best chain reorganised since the storage was last written completely)
		isPrefix := true
		// HeaderStore.tla: the crash window of F-C12-1 needs a reorganisation that reaches below what a Load keeps
		// of the stored main branch (its last P blocks): first differing height <= stored tip height - P
		deep := false
		for k := d.Step - 1; k >= 0; k-- {
			pk := w.beh.Ops[k]
			if pk.Op == "clean" || pk.Op == "save" || pk.Op == "load" {
				common := 0
				for common < len(pk.Exp.Chain) && common < len(op.Exp.Chain) && pk.Exp.Chain[common] == op.Exp.Chain[common] {
					common++
				}
				if common < len(pk.Exp.Chain) {
					isPrefix = false
					deep = common <= (len(pk.Exp.Chain)-1)-w.o.P
				}
				break
			}
		}
		f["persisted_chain_is_prefix"] = isPrefix
		f["reorg_below_what_load_keeps_of_the_stored_chain"] = deep
	}
	return f
}

// twin (C08): a second repository is driven with the same behaviour minus every submission the
// specification refuses; after a final Save both storages must be byte-identical.
func (w *hdrWorld) twin() {
	for _, op := range w.beh.Ops {
		if op.Op == "reload" || op.Op == "load" {
			return // storage generations differ legitimately after a reload from another image
		}
	}
	finalOp := hdrOp{Op: "twin"}
	run := func(skipRefused bool) (map[string][]byte, string) {
		store := storage.NewMockStorage()
		repo := w.newRepo(store)
		repo.InitializeWithGenesis()
		for _, op := range w.beh.Ops {
			switch op.Op {
			case "submit":
				if skipRefused && op.Exp.Verdict != "ok" {
					continue
				}
				for _, h := range w.headersOf(op.B) {
					if err := repo.ProcessHeader(w.ctx, h); err != nil {
						break
					}
				}
			case "clean":
				if w.o.RealClean {
					repo.Clean(w.ctx)
				} else {
					repo.VerifClean(w.ctx, w.o.P*w.o.S)
				}
			case "save":
				repo.Save(w.ctx)
			case "mark":
				repo.MarkHeaderInvalid(w.ctx, w.firstHash(op.B))
			case "unmark":
				repo.MarkHeaderNotInvalid(w.ctx, w.firstHash(op.B))
			}
		}
		if err := repo.Save(w.ctx); err != nil {
			return nil, err.Error()
		}
		return snapshotStore(store), ""
	}
	defer func() {
		if r := recover(); r != nil {
			w.fail("C08", len(w.beh.Ops), finalOp, fmt.Sprintf("twin PANIC %v", r))
		}
	}()
	a, ea := run(false)
	b, eb := run(true)
	w.cmp("C08")
	if ea != "" || eb != "" {
		if ea != eb {
			w.fail("C08", len(w.beh.Ops), finalOp, fmt.Sprintf("final save: with refused submissions %q, without %q", ea, eb))
		}
		return
	}
	var keys []string
	for k := range a {
		keys = append(keys, k)
	}
	for k := range b {
		if _, ok := a[k]; !ok {
			keys = append(keys, k)
		}
	}
	sort.Strings(keys)
	for _, k := range keys {
		if !bytes.Equal(a[k], b[k]) {
			w.fail("C08", len(w.beh.Ops), finalOp, fmt.Sprintf("a Save after refused submissions differs from one without them at key %s", k))
			return
		}
	}
}
