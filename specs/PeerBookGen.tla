---------------------------- MODULE PeerBookGen ----------------------------
(* Behaviour generator for spec -> code replay of the peer address book.      *)
EXTENDS PeerBook, Json
CONSTANT Depth
VARIABLE hist
gvars == <<vars, hist>>

Book == [i \in 1..Len(order) |-> [a |-> order[i], s |-> score[order[i]], t |-> touched[order[i]]]]
Rec == [ret |-> ret, book |-> Book, hasfile |-> hasFile, file |-> file]

GInit == Init /\ hist = <<>>
GNext == /\ Len(hist) < Depth
         /\ Next
         /\ Bounded'
         /\ hist' = Append(hist, Rec')
GSpec == GInit /\ [][GNext]_gvars
Emit == Len(hist) < Depth \/ PrintT(<<"BEH", ToJson([ops |-> hist])>>)
=============================================================================
