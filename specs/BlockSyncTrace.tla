--------------------------- MODULE BlockSyncTrace ---------------------------
(* C05, code -> spec: traces recorded from the real NodeManager / BlockManager *)
(* / BlockDownloader with a scripted block source are validated against       *)
(* BlockSync.tla.  Logged: triggers, new headers, reorganisations, the blocks  *)
(* requested from the source (retries of one block collapsed), the blocks      *)
(* processed, and the processed set once the synchronisation thread is idle.   *)
(* Silent: the thread computing its list, finishing a round, deciding to       *)
(* restart or exit, abandoning an orphaned block.                              *)
EXTENDS BlockSync

VARIABLES tr, l
tvars == <<vars, tr, l>>
Traces == ndJsonDeserialize("trace.ndjson")
Ev == Traces[tr].events[l]
More == l <= Len(Traces[tr].events)
SetOf(seq) == {seq[i] : i \in 1..Len(seq)}

TInit == /\ tr \in 1..Len(Traces) /\ l = 1
         /\ chain = [i \in 1..(Traces[tr].n + 1) |-> i - 1]
         /\ processed = SetOf(Traces[tr].processed)
         /\ nextId = MaxLen + 1
         /\ thread = "none" /\ flag = FALSE /\ todo = <<>> /\ pending = <<>> /\ lastReq = <<>>
         /\ roundReqs = <<>> /\ reorgs = 0 /\ dirty = TRUE

Adv == l' = l + 1 /\ UNCHANGED tr
TTrigger == More /\ Ev.ev = "trigger" /\ Trigger /\ Adv
TNewHeader == More /\ Ev.ev = "newheader" /\ nextId = Ev.id /\ Tip + 1 = Ev.h /\ NewHeader /\ Adv
TReorg == More /\ Ev.ev = "reorg" /\ Reorg(Ev.h) /\ Adv
TReq == More /\ Ev.ev = "req" /\ Request /\ lastReq' = <<Ev.h, Ev.id>> /\ Adv
TProcessed == More /\ Ev.ev = "processed" /\ pending = <<Ev.h, Ev.id>> /\ Complete /\ Adv
TIdle == /\ More /\ Ev.ev = "idle" /\ thread = "none" /\ processed = SetOf(Ev.set)
         /\ UNCHANGED vars /\ Adv
Silent == (BeginRound \/ RoundDone \/ Decide \/ Abandon) /\ UNCHANGED <<tr, l>>
TDone == /\ ~More /\ l = Len(Traces[tr].events) + 1 /\ PrintT(<<"TROK", tr>>) /\ l' = l + 1
         /\ UNCHANGED <<vars, tr>>
TNext == TTrigger \/ TNewHeader \/ TReorg \/ TReq \/ TProcessed \/ TIdle \/ Silent \/ TDone
TSpec == TInit /\ [][TNext]_tvars
\* the properties of C05, evaluated at every step of every validated trace
TraceInv == NeverBelowStart /\ NeverProcessed /\ AscendingContiguous
=============================================================================
