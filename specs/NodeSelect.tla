------------------------------ MODULE NodeSelect ------------------------------
(***************************************************************************)
(* Which connection serves a request (C13: a peer that has not completed   *)
(* the handshake and the chain verification "is never selected to serve    *)
(* header, transaction or block requests").                                 *)
(*                                                                         *)
(* NodeManager keeps a list of connections and a round-robin offset;        *)
(* RequestHeaders / RequestTxs / RequestBlock walk the list from the offset *)
(* (nextNode): a stopped connection is removed from the list where it       *)
(* stands, one that is not ready or is busy is skipped, for a block the      *)
(* connection must also have announced the block; the walk wraps once.      *)
(* Walk transcribes that loop, list surgery included, because the           *)
(* interesting mistakes are in the interplay of removal and offset.         *)
(***************************************************************************)
EXTENDS Integers, Sequences, FiniteSets, TLC

CONSTANTS Nodes, None

VARIABLES list,     \* the manager's connections, in order
          off,      \* nextNodeOffset (0-based)
          st,       \* per node: "out" (not connected), "hand" (handshake / verification not complete),
                    \* "ready", "busy" (ready, a block request outstanding), "stopped"
          has,      \* per node: it announced the block that is requested
          last      \* [op, node]: the last operation and the connection it selected
vars == <<list, off, st, has, last>>

Init == /\ list = <<>> /\ off = 0
        /\ st = [n \in Nodes |-> "out"] /\ has = [n \in Nodes |-> FALSE]
        /\ last = [op |-> "init", node |-> None]

RemoveAt(s, i) == SubSeq(s, 1, i - 1) \o SubSeq(s, i + 1, Len(s))

RECURSIVE Walk(_, _, _, _)
Walk(l, o, looped, blk) ==
  IF o >= Len(l)
  THEN IF looped \/ Len(l) = 0 THEN [node |-> None, list |-> l, off |-> o]
       ELSE Walk(l, 0, TRUE, blk)
  ELSE LET n == l[o + 1] IN
       IF st[n] = "stopped" THEN Walk(RemoveAt(l, o + 1), o, looped, blk)
       ELSE IF st[n] = "hand" THEN Walk(l, o + 1, looped, blk)
       ELSE IF st[n] = "busy" THEN Walk(l, o + 1, looped, blk)
       ELSE IF blk /\ ~has[n] THEN Walk(l, o + 1, looped, blk)
       ELSE [node |-> n, list |-> l, off |-> o + 1]

Pick(blk) == IF Len(list) = 0 THEN [node |-> None, list |-> list, off |-> off] ELSE Walk(list, off, FALSE, blk)

Connect(n) == /\ st[n] = "out"
              /\ st' = [st EXCEPT ![n] = "hand"] /\ list' = Append(list, n)
              /\ last' = [op |-> "connect", node |-> n] /\ UNCHANGED <<off, has>>
Verify(n, h) == /\ st[n] = "hand"
                /\ st' = [st EXCEPT ![n] = "ready"] /\ has' = [has EXCEPT ![n] = h]
                /\ last' = [op |-> "verify", node |-> n] /\ UNCHANGED <<list, off>>
Stop(n) == /\ st[n] \in {"hand", "ready", "busy"}
           /\ st' = [st EXCEPT ![n] = "stopped"]
           /\ last' = [op |-> "stop", node |-> n] /\ UNCHANGED <<list, off, has>>
Busy(n) == /\ st[n] = "ready"
           /\ st' = [st EXCEPT ![n] = "busy"]
           /\ last' = [op |-> "busy", node |-> n] /\ UNCHANGED <<list, off, has>>

ReqHeaders == LET r == Pick(FALSE) IN
              /\ list' = r.list /\ off' = r.off
              /\ last' = [op |-> "reqheaders", node |-> r.node] /\ UNCHANGED <<st, has>>
\* the connection that is asked for a block is busy from then on and is not asked for that block again
ReqBlock == LET r == Pick(TRUE) IN
            /\ list' = r.list /\ off' = r.off
            /\ st' = IF r.node = None THEN st ELSE [st EXCEPT ![r.node] = "busy"]
            /\ has' = IF r.node = None THEN has ELSE [has EXCEPT ![r.node] = FALSE]
            /\ last' = [op |-> "reqblock", node |-> r.node]

Next == \/ \E n \in Nodes : Connect(n) \/ Stop(n) \/ Busy(n) \/ \E h \in BOOLEAN : Verify(n, h)
        \/ ReqHeaders \/ ReqBlock
Spec == Init /\ [][Next]_vars

TypeOK == /\ off \in 0..(Cardinality(Nodes) + 1)
          /\ \A i \in 1..Len(list) : list[i] \in Nodes
\* C13: only a verified, idle, live connection is ever selected
SelectedIsReady == [][(last'.op \in {"reqheaders", "reqblock"} /\ last'.node # None) =>
                        (st[last'.node] = "ready" /\ (last'.op = "reqblock" => has[last'.node]))]_vars
\* and the walk finds a connection whenever one qualifies (used by C05's "no node available" patterns)
Eligible(blk) == {n \in Nodes : st[n] = "ready" /\ (blk => has[n]) /\ \E i \in 1..Len(list) : list[i] = n}
FindsOne == [][/\ (last'.op = "reqheaders" /\ Eligible(FALSE) # {}) => last'.node # None
               /\ (last'.op = "reqblock" /\ Eligible(TRUE) # {}) => last'.node # None]_vars
NoDuplicates == \A i, j \in 1..Len(list) : i # j => list[i] # list[j]
=============================================================================
