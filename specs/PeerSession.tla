----------------------------- MODULE PeerSession -----------------------------
(***************************************************************************)
(* One peer connection of BitcoinNode (bitcoin_node.go, handlers.go,       *)
(* messages.go): the read loop, which handles inbound messages strictly    *)
(* one at a time, and the handshake goroutine, which consumes the queue of *)
(* version / verack messages.  Inbound messages are classes; what a step   *)
(* sends and which sinks it calls is overwritten by every step (output     *)
(* only).  The spec follows the code: handler table per phase, what each   *)
(* path consumes of the stream, which messages legitimately close the      *)
(* connection.                                                             *)
(***************************************************************************)
EXTENDS Integers, Sequences, FiniteSets, TLC
CONSTANTS VerifyOnly,   \* node disconnects after chain verification
          HasTxMgr,     \* a tx manager is attached
          QCap,         \* capacity of the handshake queue (10 in the code)
          MaxMsgs       \* bound on inbound messages (exhaustive cfg)

\* inbound message classes
HeaderMsgs == {"hdrBSV", "hdrBCH", "hdrUnknown", "hdrEmpty", "hdrBSVSecond", "hdrGood", "hdrBad", "hdrTxCount",
               "hdrBSVShort", "hdrGoodShort"}
\* the two "Short" classes announce more headers than they deliver: the first header (the required header /
\* the next header of our chain) arrives, the rest of the declared length never does
ShortMsgs == {"hdrBSVShort", "hdrGoodShort"}
Msgs == {"version", "verack", "ping", "pongOK", "pongBad", "protoconf", "reject", "addr", "getaddr",
         "inv", "invBlock", "tx", "block", "blockWanted", "reqblock", "extTx", "extBlock", "extOther", "other",
         "txAgain", "invSeen"}
        \cup HeaderMsgs
\* "txAgain" is the transaction of the last tx message once more, "invSeen" an inventory of exactly that transaction.
\* "reqblock" is not a message: it is the node manager calling RequestBlock on the (ready) node, after which
\* the block handler is installed and "blockWanted" is the requested block.

VARIABLES q,             \* handshake queue (sequence of "version"/"verack")
          hs,            \* handshake goroutine: [vrcv, vasent, varcv, done]
          hsComplete, ready, verified,
          closed,        \* connection closed by the node (Stop, or a handler error ended the read loop)
          deaf,          \* read loop blocked for ever inside a handler
          desync,        \* stream position not at a message boundary
          protoconfs,
          breq,          \* a block request is outstanding on this node
          seenTx,        \* what the tx manager knows of the transaction that txAgain / invSeen refer to:
                         \* "none", "asked" (announced by this peer and requested from it), "got" (received)
          nmsgs,
          out,           \* commands sent by the last step (bag as sequence, sorted by the harness)
          sinks,         \* sink calls made by the last step
          alt,           \* the last step handed a complete headers message to the alternate header handler
                         \* (if one is installed: NodeManager.SetHeaderHandler) - output only
          lastIn         \* message handled by the last step ("" for goroutine steps)
vars == <<q, hs, hsComplete, ready, verified, closed, deaf, desync, protoconfs, breq, seenTx, nmsgs, out, sinks, alt, lastIn>>

Init == /\ q = <<>> /\ hs = [vrcv |-> FALSE, vasent |-> FALSE, varcv |-> FALSE, done |-> FALSE]
        /\ hsComplete = FALSE /\ ready = FALSE /\ verified = FALSE /\ closed = FALSE
        /\ deaf = FALSE /\ desync = FALSE /\ protoconfs = 0 /\ breq = FALSE /\ seenTx = "none" /\ nmsgs = 0
        /\ out = {"version", "ping"} /\ sinks = {} /\ alt = FALSE /\ lastIn = ""

Alive == ~closed /\ ~deaf /\ ~desync

Quiet == out' = {} /\ sinks' = {}
Close == closed' = TRUE /\ ready' = FALSE
Same(vs) == UNCHANGED vs

\* accept(): the only place that sets ready / verified
Accept == /\ ready' = ~VerifyOnly /\ verified' = TRUE
          /\ closed' = VerifyOnly
          /\ out' = IF VerifyOnly THEN {} ELSE {"sendheaders", "getaddr", "getheaders", "addr"}
          /\ sinks' = {}

\* ---- read loop: handle one inbound message m
Recv(m) ==
  /\ Alive /\ nmsgs < MaxMsgs /\ nmsgs' = nmsgs + 1 /\ lastIn' = m
  /\ (m = "reqblock" => ready /\ ~breq)
  /\ breq' = (IF m = "reqblock" THEN TRUE ELSE IF m = "blockWanted" /\ ready THEN FALSE ELSE breq)
  \* a transaction reaches the tx manager only through the handlers installed by accept(); a fresh "tx" replaces
  \* the one txAgain / invSeen refer to
  /\ seenTx' = (IF m \in {"tx", "extTx"} THEN (IF ready /\ HasTxMgr THEN "got" ELSE "none")
               ELSE IF m = "txAgain" /\ ready /\ HasTxMgr THEN "got"
               ELSE IF m = "invSeen" /\ ready /\ HasTxMgr /\ seenTx = "none" THEN "asked"
               ELSE seenTx)
  /\ CASE m \in {"version", "verack"} ->
            \* handed to the handshake goroutine; once that has finished nobody reads the queue: the
            \* message is dropped (non-blocking hand-over)
            /\ q' = IF ~hs.done /\ Len(q) < QCap THEN Append(q, m) ELSE q
            /\ Quiet /\ Same(<<ready, verified, closed, deaf, desync, protoconfs>>)
       [] m \in HeaderMsgs ->
            IF ~verified
            THEN \* handleHeadersVerify
                 IF ~hsComplete
                 THEN \* "Discarding headers message": the payload is not consumed
                      desync' = TRUE /\ Quiet /\ Same(<<q, ready, verified, closed, deaf, protoconfs>>)
                 ELSE IF m \in {"hdrBSV", "hdrBSVShort"}
                      THEN \* the decision is taken on the first header; a verify-only node stops there and
                           \* then, any other node goes on to discard the rest of the declared length -
                           \* which, for the short message, never arrives
                           /\ Accept /\ deaf' = (m = "hdrBSVShort" /\ ~VerifyOnly)
                           /\ Same(<<q, desync, protoconfs>>)
                      ELSE Close /\ Quiet /\ Same(<<q, verified, deaf, desync, protoconfs>>)
            ELSE \* handleHeadersTrack (ready)
                 IF m \in {"hdrBad", "hdrUnknown", "hdrBCH", "hdrBSV", "hdrBSVSecond", "hdrBSVShort"}
                 THEN \* a header that does not connect: ProcessHeader fails, the node stops
                      Close /\ out' = {} /\ sinks' = {"ProcessHeader"} /\ Same(<<q, verified, deaf, desync, protoconfs>>)
                 ELSE IF m = "hdrTxCount"
                 THEN Close /\ Quiet /\ Same(<<q, verified, deaf, desync, protoconfs>>)
                 ELSE /\ sinks' = IF m = "hdrEmpty" THEN {} ELSE {"ProcessHeader"}
                      /\ deaf' = (m = "hdrGoodShort")   \* waits for the second header
                      /\ out' = {} /\ Same(<<q, ready, verified, closed, desync, protoconfs>>)
       [] m = "ping" -> out' = {"pong"} /\ sinks' = {} /\ Same(<<q, ready, verified, closed, deaf, desync, protoconfs>>)
       [] m = "pongOK" -> Quiet /\ Same(<<q, ready, verified, closed, deaf, desync, protoconfs>>)
       [] m = "pongBad" -> IF ready THEN Close /\ Quiet /\ Same(<<q, verified, deaf, desync, protoconfs>>)
                                    ELSE Quiet /\ Same(<<q, ready, verified, closed, deaf, desync, protoconfs>>)
       [] m = "protoconf" -> /\ protoconfs' = protoconfs + 1
                             /\ IF protoconfs >= 1 THEN Close ELSE Same(<<ready, closed>>)
                             /\ Quiet /\ Same(<<q, verified, deaf, desync>>)
       [] m = "addr" -> /\ sinks' = IF ready THEN {"peers.Add"} ELSE {}
                        /\ out' = {} /\ Same(<<q, ready, verified, closed, deaf, desync, protoconfs>>)
       [] m = "getaddr" -> /\ out' = IF ready THEN {"addr"} ELSE {}
                           /\ sinks' = {} /\ Same(<<q, ready, verified, closed, deaf, desync, protoconfs>>)
       [] m = "inv" -> /\ sinks' = IF ready /\ HasTxMgr THEN {"AddTxID"} ELSE {}
                       /\ out' = IF ready /\ HasTxMgr THEN {"getdata"} ELSE {}
                       /\ Same(<<q, ready, verified, closed, deaf, desync, protoconfs>>)
       [] m \in {"tx", "extTx"} -> /\ sinks' = IF ready /\ HasTxMgr THEN {"AddTx"} ELSE {}
                                   /\ out' = {} /\ Same(<<q, ready, verified, closed, deaf, desync, protoconfs>>)
       [] m = "txAgain" -> \* delivered to the processor once: the repetition is recognised and dropped
                 /\ sinks' = IF ready /\ HasTxMgr /\ seenTx # "got" THEN {"AddTx"} ELSE {}
                 /\ out' = {} /\ Same(<<q, ready, verified, closed, deaf, desync, protoconfs>>)
       [] m = "invSeen" -> \* nothing is requested for a transaction that has been received, or that this peer
                           \* has been asked for a moment ago
                 /\ sinks' = IF ready /\ HasTxMgr /\ seenTx = "none" THEN {"AddTxID"} ELSE {}
                 /\ out' = IF ready /\ HasTxMgr /\ seenTx = "none" THEN {"getdata"} ELSE {}
                 /\ Same(<<q, ready, verified, closed, deaf, desync, protoconfs>>)
       [] m = "reqblock" -> out' = {"getdata"} /\ sinks' = {} /\ Same(<<q, ready, verified, closed, deaf, desync, protoconfs>>)
       [] m = "blockWanted" -> \* the requested block reaches the block handler; any other block is only consumed
                 /\ sinks' = IF ready /\ breq THEN {"BlockHandler"} ELSE {}
                 /\ out' = {} /\ Same(<<q, ready, verified, closed, deaf, desync, protoconfs>>)
       [] OTHER -> \* reject, invBlock, unrequested block, extended block / other, any other command:
                   \* consumed to the declared length, nothing else happens
                   Quiet /\ Same(<<q, ready, verified, closed, deaf, desync, protoconfs>>)
  /\ Same(<<hs, hsComplete>>)
  \* every headers message handled after the handshake is teed to the alternate header handler, to its last byte
  \* (the deferred discard of what the node's own handler left unread is teed as well) - as long as the node does
  \* not close the connection under it
  /\ alt' = (m \in HeaderMsgs \ ShortMsgs /\ hsComplete /\ ~closed')

\* ---- handshake goroutine consumes one queued message
Hs == /\ ~hs.done /\ ~closed /\ Len(q) > 0 /\ lastIn' = ""
      /\ LET m == Head(q)
             vr == hs.vrcv \/ m = "version"
             ar == hs.varcv \/ m = "verack"
             fin == vr /\ ar
         IN /\ q' = Tail(q)
            /\ hs' = [vrcv |-> vr, vasent |-> hs.vasent \/ m = "version", varcv |-> ar, done |-> fin]
            /\ hsComplete' = (hsComplete \/ fin)
            /\ out' = (IF m = "version" /\ ~hs.vasent THEN {"verack"} ELSE {})
                      \cup (IF fin THEN {"protoconf", "getheadersVerify"} ELSE {})
      /\ sinks' = {} /\ alt' = FALSE
      /\ Same(<<ready, verified, closed, deaf, desync, protoconfs, breq, seenTx, nmsgs>>)

Next == (\E m \in Msgs : Recv(m)) \/ Hs
Spec == Init /\ [][Next]_vars

\* ------------------------------------------------------------------ C13
NoSinkBeforeReady == [][sinks' # {} => ready]_vars
ReadyNeedsHandshakeAndBSV == [][(~verified /\ verified') => (hsComplete /\ lastIn' \in {"hdrBSV", "hdrBSVShort"})]_vars
ReadyImpliesVerified == ready => verified /\ hsComplete
VerifyOnlyDisconnects == (VerifyOnly /\ verified) => closed /\ ~ready
NeverReadyWhenVerifyOnly == VerifyOnly => ~ready
\* ------------------------------------------------------------------ C03 (peer side)
OnlyBSVVerifies == [][(lastIn' \in HeaderMsgs \ {"hdrBSV", "hdrBSVShort"} /\ ~verified) => (~verified' /\ (hsComplete => closed'))]_vars
\* ------------------------------------------------------------------ C14
\* a verified, connected peer always gets its ping answered, and conformant traffic never leaves the
\* stream between messages
PingAnswered == [][(lastIn' = "ping" /\ ready) => "pong" \in out']_vars
\* only a message that stops short of its own declared length leaves the read loop waiting inside a handler
NeverDeafWhileReady == [][(deaf' /\ ~deaf) => lastIn' \in ShortMsgs]_vars
\* and a verify-only node does not wait for it: the decision closes the connection
VerifyOnlyNeverWaits == VerifyOnly => ~deaf
InSyncWhileReady == ~(ready /\ desync)
==============================================================================
