----------------------------- MODULE OutChannel -----------------------------
(***************************************************************************)
(* The outgoing side of one BitcoinNode connection (messages.go:           *)
(* MessageChannel.Add / Close, sendOutgoing; bitcoin_node.go: Stop), with  *)
(* a peer that reads what the node sends only when it pleases.             *)
(*                                                                         *)
(*  - Add takes the channel mutex and keeps it while it waits for room in  *)
(*    the buffered channel;                                                *)
(*  - Close needs the same mutex;                                          *)
(*  - the sender goroutine takes one message at a time and writes it to    *)
(*    the connection, which completes only when the peer reads or the      *)
(*    connection is closed; after a failed write it drains the channel     *)
(*    until the channel is closed;                                         *)
(*  - Stop closes the connection and closes the channel, in the order      *)
(*    given by the constant Order.                                         *)
(*                                                                         *)
(* The question: does a Stop always complete (so that a verify-only node   *)
(* disconnects, a timed-out node goes away, Run returns), whatever the     *)
(* peer does?  With the order of the code ("conn" first) TLC proves it for *)
(* the configuration; with "chan" first it produces the schedule that the  *)
(* harness replays against the real node (sess -deaf): queue full, an      *)
(* adder waiting for room with the mutex held, Stop.                       *)
(***************************************************************************)
EXTENDS Integers, FiniteSets, TLC
CONSTANTS
    \* @type: Int;
    Cap,        \* capacity of the buffered channel (1000 in the code)
    \* @type: Set(Str);
    Adders,     \* goroutines that call sendMessage (read loop handler, handshake, ping thread)
    \* @type: Int;
    MaxAdds,    \* bound on Add calls per adder
    \* @type: Str;
    Order       \* "conn" : close the connection, then the channel (the code); "chan" : the reverse

VARIABLES
    \* @type: Int;
    len,        \* messages in the buffered channel
    \* @type: Bool;
    open,       \* MessageChannel.open
    \* @type: Bool;
    chClosed,   \* close(c.Channel) done
    \* @type: Str;
    mutex,      \* holder of MessageChannel.lock: an adder or "none"
    \* @type: Str -> Str;
    apc,        \* adder -> "idle" | "locked" (holds the mutex, waiting for room)
    \* @type: Str -> Int;
    adds,       \* adder -> number of Add calls so far
    \* @type: Str;
    spc,        \* sender: "recv" | "write" | "drain" | "done"
    \* @type: Str;
    conn,       \* "up" | "closed"
    \* @type: Str;
    stpc        \* stopper: "idle" | "first" | "second" | "done"
vars == <<len, open, chClosed, mutex, apc, adds, spc, conn, stpc>>

Init == /\ len = 0 /\ open = TRUE /\ chClosed = FALSE /\ mutex = "none"
        /\ apc = [a \in Adders |-> "idle"] /\ adds = [a \in Adders |-> 0]
        /\ spc = "recv" /\ conn = "up" /\ stpc = "idle"

\* ---- Add
AddLock(a) == /\ apc[a] = "idle" /\ adds[a] < MaxAdds /\ mutex = "none"
              /\ mutex' = a /\ apc' = [apc EXCEPT ![a] = "locked"] /\ adds' = [adds EXCEPT ![a] = @ + 1]
              /\ UNCHANGED <<len, open, chClosed, spc, conn, stpc>>
\* with the mutex: closed -> error; room -> enqueue; no room -> keep waiting (with the mutex)
AddFinish(a) == /\ apc[a] = "locked"
                /\ \/ ~open /\ UNCHANGED len
                   \/ open /\ len < Cap /\ len' = len + 1
                /\ mutex' = "none" /\ apc' = [apc EXCEPT ![a] = "idle"]
                /\ UNCHANGED <<open, chClosed, adds, spc, conn, stpc>>

\* ---- sender goroutine
SendTake == /\ spc = "recv" /\ len > 0 /\ len' = len - 1
            /\ spc' = IF conn = "up" THEN "write" ELSE "drain"
            /\ UNCHANGED <<open, chClosed, mutex, apc, adds, conn, stpc>>
SendEnd == /\ spc \in {"recv", "drain"} /\ len = 0 /\ chClosed /\ spc' = "done"
           /\ UNCHANGED <<len, open, chClosed, mutex, apc, adds, conn, stpc>>
\* the peer reads: the write completes
PeerReads == /\ spc = "write" /\ conn = "up" /\ spc' = "recv"
             /\ UNCHANGED <<len, open, chClosed, mutex, apc, adds, conn, stpc>>
\* the connection was closed under the write: it fails, the sender drains the channel
WriteFails == /\ spc = "write" /\ conn = "closed" /\ spc' = "drain"
              /\ UNCHANGED <<len, open, chClosed, mutex, apc, adds, conn, stpc>>
Drain == /\ spc = "drain" /\ len > 0 /\ len' = len - 1
         /\ UNCHANGED <<open, chClosed, mutex, apc, adds, spc, conn, stpc>>

\* ---- Stop
StopBegin == /\ stpc = "idle" /\ stpc' = "first"
             /\ UNCHANGED <<len, open, chClosed, mutex, apc, adds, spc, conn>>
CloseConn == conn' = "closed" /\ UNCHANGED <<len, open, chClosed, mutex>>
CloseChan == /\ mutex = "none" /\ UNCHANGED conn
             /\ IF open THEN open' = FALSE /\ chClosed' = TRUE ELSE UNCHANGED <<open, chClosed>>
             /\ UNCHANGED <<len, mutex>>
StopFirst == /\ stpc = "first" /\ stpc' = "second"
             /\ IF Order = "conn" THEN CloseConn ELSE CloseChan
             /\ UNCHANGED <<apc, adds, spc>>
StopSecond == /\ stpc = "second" /\ stpc' = "done"
              /\ IF Order = "conn" THEN CloseChan ELSE CloseConn
              /\ UNCHANGED <<apc, adds, spc>>

Next == \/ \E a \in Adders : AddLock(a) \/ AddFinish(a)
        \/ SendTake \/ SendEnd \/ PeerReads \/ WriteFails \/ Drain
        \/ StopBegin \/ StopFirst \/ StopSecond

\* every step of the node is fair; the peer is not: it may never read
Fair == /\ \A a \in Adders : WF_vars(AddFinish(a))
        /\ WF_vars(SendTake) /\ WF_vars(SendEnd) /\ WF_vars(WriteFails) /\ WF_vars(Drain)
        /\ WF_vars(StopFirst) /\ WF_vars(StopSecond)
Spec == Init /\ [][Next]_vars /\ Fair

TypeOK == /\ len \in 0..Cap /\ mutex \in Adders \cup {"none"}
          /\ (chClosed => ~open)
MutexHeld == \A a \in Adders : (apc[a] = "locked") <=> (mutex = a)
\* a Stop, once begun, completes whatever the peer does: the connection is closed and the channel is closed
StopCompletes == (stpc = "first") ~> (stpc = "done" /\ conn = "closed" /\ chClosed)
\* and then nobody stays blocked: every Add returns and the sender goroutine ends (Run can return)
NobodyLeftBlocked == (stpc = "first") ~> (spc = "done" /\ \A a \in Adders : apc[a] = "idle")
\* ---- The structural invariants for every capacity (Apalache, thorough tier): IndInv holds initially and is
\* preserved by every step, with Cap anywhere in 1..1000 (the outgoing queue's 1000 and the request queue's 10
\* included), three adders and any number of Add calls:
\*   apalache-mc check --cinit=ConstInit --init=Init   --inv=IndInv --length=0 OutChannel.tla
\*   apalache-mc check --cinit=ConstInit --init=IndInv --inv=IndInv --length=1 OutChannel.tla
\* (the liveness properties above are TLC's, on small constants)
ConstInit == Cap \in 1..1000 /\ Adders = {"read", "handshake", "ping"} /\ MaxAdds \in 0..1000 /\ Order = "conn"
IndInv == /\ len \in 0..1000 /\ len <= Cap /\ open \in BOOLEAN /\ chClosed \in BOOLEAN
          /\ mutex \in Adders \cup {"none"}
          /\ apc \in [Adders -> {"idle", "locked"}]
          /\ adds \in [Adders -> 0..1000] /\ (\A a \in Adders : adds[a] <= MaxAdds)
          /\ spc \in {"recv", "write", "drain", "done"}
          /\ conn \in {"up", "closed"}
          /\ stpc \in {"idle", "first", "second", "done"}
          /\ MutexHeld
          /\ (chClosed <=> ~open)
          \* the order of the code: the channel is only closed after the connection
          /\ (Order = "conn" => (chClosed => conn = "closed"))
          /\ (Order = "conn" => (conn = "closed" <=> stpc \in {"second", "done"}))
          /\ (Order = "conn" => (chClosed <=> stpc = "done"))
=============================================================================
