-------------------------- MODULE BlockDownloadGen --------------------------
(* Behaviours for spec -> code replay of C16 at call granularity.  The       *)
(* environment events are: the block message arrives, one transaction is     *)
(* handed over (or the stream ends), the manager cancels (Cancel, then the   *)
(* thread stop = interrupt), the peer drops (node Stop), shutdown.  An event *)
(* is only issued when the system is quiescent (no goroutine can take a      *)
(* step), which is how the harness schedules them; every internal            *)
(* interleaving between two events is explored by the exhaustive             *)
(* configuration of BlockDownload itself.                                    *)
EXTENDS BlockDownload, Json
CONSTANT Depth
VARIABLE hist
gvars == <<vars, hist>>

Internal == \/ HReadCount \/ HCallStop \/ HWaitStop \/ HSendStarted \/ HCheckCancel \/ HSendCancelled \/ HSendOk
            \/ HCompleteBlock
            \/ MgrCancelSendS \/ MgrCancelSendC
            \/ NodeStop
            \/ Run

Obs == [runDone |-> runPc = "done", result |-> runResult, handler |-> hPc, txs |-> hTx,
        nStarted |-> Len(started), nComplete |-> Len(complete),
        cancelled |-> isCancelled, isStarted |-> isStarted, isComplete |-> isComplete,
        cancelDone |-> cPc \in {"idle", "stopThread", "done"}, stopDone |-> sPc \in {"idle", "done"}]

Event(name, A) == /\ ~ENABLED Internal /\ Len(hist) < Depth /\ A
                  /\ hist' = Append(hist, [ev |-> name, obs |-> Obs'])
\* after an internal step the observation of the last event is refreshed: it is read at quiescence
Settle == /\ Internal
          /\ hist' = IF hist = <<>> THEN hist ELSE [hist EXCEPT ![Len(hist)].obs = Obs']

GInit == Init /\ hist = <<>>
GNext == \/ Settle
         \/ Event("arrive", HArrive)
         \/ Event("tx", HTx)
         \/ Event("cancel", MgrCancelLock)
         \/ Event("stopthread", MgrStopThread)
         \/ Event("peerdrop", ConnLost)
         \/ Event("shutdown", Shutdown)
GSpec == GInit /\ [][GNext]_gvars
Quiet == ~ENABLED Internal
Finished == Quiet /\ (Len(hist) >= Depth \/ ~ENABLED GNext)
Emit == ~(Finished /\ hist # <<>>) \/ PrintT(<<"BEH", ToJson([ntx |-> NTx, events |-> hist])>>)
=============================================================================
