----------------------------- MODULE BlockVerify -----------------------------
(***************************************************************************)
(* Handling of one downloaded block by BlockDownloader.HandleBlock /       *)
(* handleBlock (block_downloader.go).                                      *)
(*                                                                         *)
(* Leaves are abstract transaction ids.  The merkle root is a TERM (nested *)
(* tuples, odd levels duplicate their last node), so two sequences have    *)
(* equal roots exactly when the real tree cannot tell them apart (SHA-256  *)
(* assumed collision free).  A case is chosen in Init: the block the       *)
(* header commits to, the relevant subset, what the peer actually streams  *)
(* (a corruption of the block), the announced count and one fault.  The    *)
(* steps follow the code: hash check, one ProcessTx per received tx with   *)
(* the cancel check after it, count check, root check, coinbase, confirms  *)
(* in order, append, complete.                                             *)
(***************************************************************************)
EXTENDS Integers, Sequences, FiniteSets, TLC, Json
CONSTANTS K,         \* max txs in the committed block; leaf K+1 is a foreign tx
          Arbitrary  \* TRUE: the peer streams any sequence up to K+1 leaves; FALSE: single corruptions

Leaves == 1..(K + 1)

RECURSIVE PairUp(_), Root(_)
PairUp(s) == IF Len(s) = 0 THEN <<>>
             ELSE IF Len(s) = 1 THEN << <<s[1], s[1]>> >>
             ELSE << <<s[1], s[2]>> >> \o PairUp(SubSeq(s, 3, Len(s)))
Root(s) == IF Len(s) = 1 THEN s[1] ELSE Root(PairUp(s))
Leaf(s) == [i \in 1..Len(s) |-> <<s[i]>>]   \* leaves are 1-tuples, inner nodes 2-tuples (TLC cannot compare an
                                            \* integer with a tuple)
MRoot(s) == Root(Leaf(s))

Faults == {"none", "wrongheader", "procerr", "storeerr", "cancel", "cancelend", "cut", "cbaseerr", "confirmerr"}

VARIABLES orig,      \* the block the requested header commits to (distinct leaves)
          relevant,  \* leaves the processor marks relevant
          sent,      \* what the peer streams
          count,     \* announced tx count
          fault,     \* [kind, at]: processor error at ProcessTx call `at`, cancel during call `at`,
                     \* stream cut after `at` txs, ...
          pc, i,     \* control state, index of the next received tx
          calls,     \* recorded calls to the sinks, in order
          result     \* value delivered on Complete: "ok", "cancelled", "wrongblock", "badroot", "error", ""
vars == <<orig, relevant, sent, count, fault, pc, i, calls, result>>

Distinct(s) == \A a, b \in 1..Len(s) : a # b => s[a] # s[b]
Origs == {s \in UNION {[1..m -> 1..K] : m \in 1..K} : Distinct(s)}

RemoveAt(s, k) == SubSeq(s, 1, k - 1) \o SubSeq(s, k + 1, Len(s))
InsertAt(s, k, x) == SubSeq(s, 1, k - 1) \o <<x>> \o SubSeq(s, k, Len(s))   \* x becomes element k
Swap(s, a, b) == [s EXCEPT ![a] = s[b], ![b] = s[a]]
Corruptions(s) ==
    {s}
    \cup ({RemoveAt(s, k) : k \in 1..Len(s)} \ {<<>>})
    \cup {InsertAt(s, k, x) : k \in 1..(Len(s) + 1), x \in Leaves}
    \cup {Swap(s, a, b) : a, b \in 1..Len(s)}
    \cup {[s EXCEPT ![k] = x] : k \in 1..Len(s), x \in Leaves}
    \cup {s \o SubSeq(s, k, Len(s)) : k \in 1..Len(s)}          \* tail repeated (CVE-2012-2459 shape)
Streams(s) == IF Arbitrary THEN UNION {[1..m -> Leaves] : m \in 1..(K + 1)} ELSE Corruptions(s)

Init == /\ orig \in Origs
        /\ relevant \in SUBSET (1..K)
        /\ sent \in Streams(orig)
        /\ count \in {Len(sent) - 1, Len(sent), Len(sent) + 1} \ {0}
        /\ fault \in {[kind |-> "none", at |-> 0], [kind |-> "wrongheader", at |-> 0],
                      [kind |-> "storeerr", at |-> 0], [kind |-> "cbaseerr", at |-> 0],
                      \* cancelled after the last transaction was handled and before the stream ends
                      [kind |-> "cancelend", at |-> 0]}
                     \cup {[kind |-> k, at |-> n] : k \in {"procerr", "cancel"}, n \in 1..Len(sent)}
                     \cup {[kind |-> "cut", at |-> n] : n \in 0..(Len(sent) - 1)}
                     \cup {[kind |-> "confirmerr", at |-> n] : n \in 1..K}
        /\ pc = "start" /\ i = 1 /\ calls = <<>> /\ result = ""

\* the txs that actually arrive: a cut stream ends early
Arriving == IF fault.kind = "cut" THEN SubSeq(sent, 1, fault.at) ELSE sent

RECURSIVE Filter(_)
Filter(s) == IF s = <<>> THEN <<>>
             ELSE IF Head(s) \in relevant THEN <<Head(s)>> \o Filter(Tail(s)) ELSE Filter(Tail(s))

Call(c) == calls' = Append(calls, c)
Finish(r) == result' = r /\ pc' = "done"

Start == /\ pc = "start"
         /\ IF fault.kind = "wrongheader"
            THEN Finish("wrongblock") /\ UNCHANGED <<i, calls>>
            ELSE pc' = "txs" /\ UNCHANGED <<i, calls, result>>

\* A relevant transaction that arrives a second time would be confirmed twice with one of the two
\* proofs not verifying (a stream extended by repeating its tail has the same root): refused.
RelevantAgain(n) == Arriving[n] \in relevant /\ \E j \in 1..(n - 1) : Arriving[j] = Arriving[n]

\* one received transaction: ProcessTx, duplicate check, then the cancel check
Tx == /\ pc = "txs" /\ i <= Len(Arriving)
      /\ Call([op |-> "process", tx |-> Arriving[i]])
      /\ IF fault.kind = "procerr" /\ fault.at = i THEN Finish("error") /\ UNCHANGED i
         ELSE IF RelevantAgain(i) THEN Finish("error") /\ UNCHANGED i
         ELSE IF fault.kind = "cancel" /\ fault.at = i THEN Finish("cancelled") /\ UNCHANGED i
         ELSE i' = i + 1 /\ UNCHANGED <<pc, result>>

EndOfStream ==
      /\ pc = "txs" /\ i > Len(Arriving)
      /\ IF Len(Arriving) # count THEN Finish("cancelled")        \* short or long stream: treated as an abort
         ELSE IF MRoot(Arriving) # MRoot(orig) THEN Finish("badroot")
         ELSE IF fault.kind = "cancelend" THEN Finish("cancelled")   \* the cancel check before anything is confirmed
         ELSE pc' = "coinbase" /\ UNCHANGED result
      /\ UNCHANGED <<i, calls>>

Coinbase == /\ pc = "coinbase"
            /\ Call([op |-> "coinbase", tx |-> Arriving[1]])
            /\ IF fault.kind = "cbaseerr" THEN Finish("error") /\ UNCHANGED i
               ELSE pc' = "confirm" /\ i' = 1 /\ UNCHANGED result

Confirm == /\ pc = "confirm"
           /\ LET todo == Filter(Arriving)
              IN IF i > Len(todo)
                 THEN pc' = "append" /\ UNCHANGED <<i, calls, result>>
                 ELSE /\ Call([op |-> "confirm", tx |-> todo[i]])
                      /\ IF fault.kind = "confirmerr" /\ fault.at = i THEN Finish("error") /\ UNCHANGED i
                         ELSE i' = i + 1 /\ UNCHANGED <<pc, result>>

AppendIDs == /\ pc = "append"
             /\ Call([op |-> "append", txs |-> Filter(Arriving)])
             /\ IF fault.kind = "storeerr" THEN Finish("error") ELSE Finish("ok")
             /\ UNCHANGED i

Next == /\ (Start \/ Tx \/ EndOfStream \/ Coinbase \/ Confirm \/ AppendIDs)
        /\ UNCHANGED <<orig, relevant, sent, count, fault>>
Spec == Init /\ [][Next]_vars /\ WF_vars(Next)

\* ------------------------------------------------------------------ C04
Ops(o) == SelectSeq(calls, LAMBDA c : c.op = o)
Verified == fault.kind # "wrongheader" /\ Len(Arriving) = count /\ MRoot(Arriving) = MRoot(orig)
\* coinbase, confirmations and the recorded txids only for a fully verified block
SideEffectsOnlyIfVerified == (Len(Ops("coinbase")) + Len(Ops("confirm")) + Len(Ops("append")) > 0) => Verified
\* confirmations cover exactly the relevant transactions of the committed block, once each, in block order
ConfirmsAreRelevantInOrderOnce ==
    result = "ok" => /\ [k \in 1..Len(Ops("confirm")) |-> Ops("confirm")[k].tx] = Filter(Arriving)
                     /\ Distinct(Filter(Arriving))
                     /\ \A k \in 1..Len(Ops("confirm")) : Ops("confirm")[k].tx \in relevant
\* every confirmed transaction has a position in the received stream whose merkle path leads to the header's
\* root: with a unique position (no relevant tx twice) the proof built for it verifies against the header
EveryProofVerifies ==
    \A k \in 1..Len(Ops("confirm")) :
        /\ MRoot(Arriving) = MRoot(orig)
        /\ Cardinality({p \in 1..Len(Arriving) : Arriving[p] = Ops("confirm")[k].tx}) = 1
\* every case terminates with a result
Terminates == <>(pc = "done")
ResultSet == pc = "done" => result \in {"ok", "cancelled", "wrongblock", "badroot", "error"}

\* ------------------------------------------------------------------ case export (spec -> code)
CaseOut == [orig |-> orig, relevant |-> relevant, sent |-> sent, count |-> count, fault |-> fault,
            calls |-> calls, result |-> result]
EmitCase == pc # "done" \/ PrintT(<<"CASE", ToJson(CaseOut)>>)
==============================================================================
