---------------------------- MODULE TxManagerGen ----------------------------
(* Behaviour generator for spec -> code replay of TxManager: every call with   *)
(* the reply the specification dictates and the cumulative forward counts.     *)
EXTENDS TxManager, Json
CONSTANT Depth
VARIABLE hist
gvars == <<vars, hist>>

\* Nodes and Txs are sets of strings ("n1", "t1", ...)
Rec == [op |-> ret.op,
        n |-> IF "n" \in DOMAIN ret THEN ret.n ELSE "",
        t |-> IF "t" \in DOMAIN ret THEN ret.t ELSE "",
        req |-> IF "req" \in DOMAIN ret THEN ret.req ELSE FALSE,
        txs |-> IF "txs" \in DOMAIN ret THEN ret.txs ELSE {},
        forwarded |-> forwarded]

GInit == Init /\ hist = <<>>
\* spec -> code behaviours use the unlimited poll only (its reply is dictated)
DNext == \/ \E n \in Nodes, t \in Txs : Announce(n, t) \/ Deliver(n, t)
         \/ \E n \in Nodes : Poll(n)
         \/ Tick \/ CleanAll
GNext == /\ Len(hist) < Depth
         /\ DNext
         /\ hist' = Append(hist, Rec')
GSpec == GInit /\ [][GNext]_gvars
Emit == Len(hist) < Depth \/ PrintT(<<"BEH", ToJson([ops |-> hist])>>)
=============================================================================
