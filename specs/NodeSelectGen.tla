---------------------------- MODULE NodeSelectGen ----------------------------
(* Behaviours of NodeSelect with, per step, the operation, the connection the   *)
(* specification selects and the state of every connection, printed as JSON for *)
(* replay on the real NodeManager with real BitcoinNodes over pipes.            *)
EXTENDS NodeSelect, Json
CONSTANT Depth
VARIABLE hist
gvars == <<vars, hist>>
Name(x) == IF x = None THEN "none" ELSE x
GInit == Init /\ hist = <<>>
GNext == /\ Len(hist) < Depth /\ Next
         /\ hist' = Append(hist, [op |-> last'.op, node |-> Name(last'.node), st |-> st', has |-> has',
                                  list |-> list', off |-> off'])
GSpec == GInit /\ [][GNext]_gvars
Emit == Len(hist) < Depth \/ PrintT(<<"BEH", ToJson([ops |-> hist])>>)
=============================================================================
