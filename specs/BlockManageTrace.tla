-------------------------- MODULE BlockManageTrace --------------------------
(* C16 manager layer, code -> spec: traces recorded from the real BlockManager *)
(* (harness `bmg`) are validated against BlockManage.tla.  Logged events bind  *)
(* to the spec actions; the steps the harness cannot see (the manager taking   *)
(* the next request, a downloader's Run returning and being removed from the   *)
(* list) are silent steps that TLC infers.                                     *)
EXTENDS BlockManage, Json

VARIABLES tr, l, hres
tvars == <<vars, tr, l, hres>>

Traces == ndJsonDeserialize("trace.ndjson")
Ev == Traces[tr].events[l]
More == l <= Len(Traces[tr].events)

TInit == /\ Init /\ tr \in 1..Len(Traces) /\ l = 1 /\ hres = [d \in 1..MaxDl |-> "none"]

Adv == l' = l + 1 /\ UNCHANGED tr
Stutter == UNCHANGED vars

TNoop == /\ More /\ Ev.ev \in {"add", "nonode", "cancel"} /\ Stutter /\ Adv /\ UNCHANGED hres
TStart == /\ More /\ Ev.ev = "start" /\ cur = Ev.r /\ nextId = Ev.d /\ StartDownloader /\ Adv /\ UNCHANGED hres
THDone == /\ More /\ Ev.ev = "hdone" /\ Stutter /\ Adv /\ hres' = [hres EXCEPT ![Ev.d] = Ev.res]
TAbort == /\ More /\ Ev.ev = "abort" /\ cur = Ev.r /\ Abort /\ Adv /\ UNCHANGED hres
TTerminal == /\ More /\ Ev.ev = "terminal" /\ cur = Ev.r
             /\ \/ Ev.res = "completed" /\ EndCompleted
                \/ Ev.res = "aborted" /\ EndAborted
             /\ Adv /\ UNCHANGED hres
\* the harness samples the list after every request has ended and after waiting (up to 3 s) for it to
\* drain: by then ListDrains requires it to be empty
TCount == /\ More /\ Ev.ev = "count" /\ Ev.n = 0 /\ Of(Ev.r) = {} /\ Stutter /\ Adv /\ UNCHANGED hres

\* silent steps
STake == Take /\ UNCHANGED <<tr, l, hres>>
SFinish == /\ \E d \in dls, res \in {"ok", "failed", "cancelled"} :
                 /\ (res = "ok" => hres[d.id] = "ok")      \* only a handler that returned nil lets Run return nil
                 /\ Finish(d, res)
           /\ UNCHANGED <<tr, l, hres>>

TDone == /\ ~More /\ l = Len(Traces[tr].events) + 1 /\ PrintT(<<"TROK", tr>>) /\ l' = l + 1
         /\ UNCHANGED <<vars, tr, hres>>

TNext == TNoop \/ TStart \/ THDone \/ TAbort \/ TTerminal \/ TCount \/ STake \/ SFinish \/ TDone
TSpec == TInit /\ [][TNext]_tvars
=============================================================================
