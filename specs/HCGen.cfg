CONSTANTS N = 6
  Works = {1,2}
  MaxDepth = 1
  P = 2
  MaxSubs = 2
  Depth = 12
  Ops = {"submit","clean","save","load","reload","subscribe"}
SPECIFICATION GSpec
INVARIANTS Emit
CHECK_DEADLOCK FALSE
