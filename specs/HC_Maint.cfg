CONSTANTS N = 4
  Works = {1,2}
  MaxDepth = 1
  P = 2
  MaxSubs = 1
  AutoEvery = 0
SPECIFICATION SpecMaint
INVARIANTS TypeOK TipMaxWork MarkedExcluded
PROPERTIES RefusalChangesNothing CleanChangesNothing SaveLoadSame NoWorkLoss
CHECK_DEADLOCK FALSE
