------------------------------ MODULE PeerBook ------------------------------
(***************************************************************************)
(* The peer address book (peers.go, StoragePeerRepository).                *)
(*   Add(a) UpdateScore(a,d) UpdateTime(a) Get(min,max) Save Load Clear    *)
(* plus the storage faults of C20: LoadCut(k) loads a stored file that was *)
(* cut short so that exactly its first k records are complete.             *)
(* Last-seen times are wall-clock seconds in the implementation; here a    *)
(* peer's time is abstract: 0 = never touched, 1 = touched.                *)
(***************************************************************************)
EXTENDS Integers, Sequences, FiniteSets, TLC

CONSTANTS Addrs,      \* address strings
          Deltas,     \* score deltas
          Bounds,     \* values used as min / max of Get (-1 as max = unbounded)
          MaxScore    \* bound on |score| (state constraint of the exhaustive cfg)

VARIABLES order,      \* sequence of addresses in insertion order (the list; also the file order)
          score,      \* [Addrs -> Int]   (meaningful for addresses in order)
          touched,    \* [Addrs -> 0..1]
          file,       \* stored file: sequence of records [a, s, t]
          hasFile,    \* whether a stored file exists
          ret         \* reply of the last call (output only)
vars == <<order, score, touched, file, hasFile, ret>>

\* default constant values (negative numbers cannot be written in a TLC configuration file)
DefDeltas == {-2, 1, 3}
SmallDeltas == {-1, 1}
SmallBounds == {-1, 0, 1}
DefBounds == {-1, 0, 2}
WideDeltas == {-5, -1, 1, 2, 5}
WideBounds == {-5, -1, 0, 1, 4, 5}

Has(a) == \E i \in 1..Len(order) : order[i] = a
Members == {order[i] : i \in 1..Len(order)}

Init == /\ order = <<>> /\ score = [a \in Addrs |-> 0] /\ touched = [a \in Addrs |-> 0]
        /\ file = <<>> /\ hasFile = FALSE /\ ret = [op |-> "init"]

Add(a) == /\ IF Has(a) THEN UNCHANGED <<order, score, touched>>
             ELSE /\ order' = Append(order, a)
                  /\ score' = [score EXCEPT ![a] = 0]
                  /\ touched' = [touched EXCEPT ![a] = 0]
          /\ ret' = [op |-> "add", a |-> a, ok |-> ~Has(a)]
          /\ UNCHANGED <<file, hasFile>>

UpdateScore(a, d) ==
          /\ IF Has(a) THEN /\ score' = [score EXCEPT ![a] = @ + d]
                            /\ touched' = [touched EXCEPT ![a] = 1]
             ELSE UNCHANGED <<score, touched>>
          /\ ret' = [op |-> "score", a |-> a, d |-> d, ok |-> Has(a)]
          /\ UNCHANGED <<order, file, hasFile>>

UpdateTime(a) ==
          /\ IF Has(a) THEN touched' = [touched EXCEPT ![a] = 1] ELSE UNCHANGED touched
          /\ ret' = [op |-> "time", a |-> a, ok |-> Has(a)]
          /\ UNCHANGED <<order, score, file, hasFile>>

InRange(s, min, max) == s >= min /\ (max = -1 \/ s <= max)
Get(min, max) ==
          /\ ret' = [op |-> "get", min |-> min, max |-> max,
                     peers |-> {a \in Members : InRange(score[a], min, max)}]
          /\ UNCHANGED <<order, score, touched, file, hasFile>>

Records == [i \in 1..Len(order) |-> [a |-> order[i], s |-> score[order[i]], t |-> touched[order[i]]]]
Save == /\ file' = Records /\ hasFile' = TRUE
        /\ ret' = [op |-> "save"]
        /\ UNCHANGED <<order, score, touched>>

\* the book after reading the records recs (in file order)
LoadFrom(recs) ==
        /\ order' = [i \in 1..Len(recs) |-> recs[i].a]
        /\ score' = [a \in Addrs |-> IF \E i \in 1..Len(recs) : recs[i].a = a
                                     THEN recs[CHOOSE i \in 1..Len(recs) : recs[i].a = a].s ELSE 0]
        /\ touched' = [a \in Addrs |-> IF \E i \in 1..Len(recs) : recs[i].a = a
                                       THEN recs[CHOOSE i \in 1..Len(recs) : recs[i].a = a].t ELSE 0]

Load == /\ IF hasFile THEN LoadFrom(file) ELSE LoadFrom(<<>>)
        /\ ret' = [op |-> "load", cut |-> -1]
        /\ UNCHANGED <<file, hasFile>>

\* C20 crash point: the stored file is cut short anywhere inside record k+1 (or inside the header
\* when k = 0): exactly the first k records survive.  The cut file replaces the stored one.
LoadCut(k) == /\ hasFile /\ k \in 0..(Len(file) - 1)
              /\ LoadFrom(SubSeq(file, 1, k))
              /\ file' = SubSeq(file, 1, k) /\ UNCHANGED hasFile
              /\ ret' = [op |-> "loadcut", cut |-> k]

Clear == /\ order' = <<>> /\ file' = <<>> /\ hasFile' = FALSE
         /\ score' = [a \in Addrs |-> 0] /\ touched' = [a \in Addrs |-> 0]
         /\ ret' = [op |-> "clear"]

Next == \/ \E a \in Addrs : Add(a) \/ UpdateTime(a)
        \/ \E a \in Addrs, d \in Deltas : UpdateScore(a, d)
        \/ \E mn \in Bounds, mx \in Bounds : Get(mn, mx)
        \/ Save \/ Load \/ Clear
        \/ \E k \in 0..3 : LoadCut(k)
Spec == Init /\ [][Next]_vars

Bounded == \A a \in Addrs : score[a] <= MaxScore /\ score[a] >= -MaxScore

\* ------------------------------------------------------------------ C20
\* each address is held once
NoDuplicates == \A i, j \in 1..Len(order) : i # j => order[i] # order[j]
\* a score query returns exactly the peers whose score lies in the range
GetExact == ret.op = "get" =>
              \A a \in Addrs : (a \in ret.peers) <=> (Has(a) /\ InRange(score[a], ret.min, ret.max))
\* Save followed by Load reproduces the book
SaveLoadSame == [][(ret.op = "save" /\ ret'.op = "load") =>
                      /\ order' = order
                      /\ \A a \in Members : score'[a] = score[a] /\ touched'[a] = touched[a]]_vars
\* a cut file keeps every peer that was fully written before the cut, in order, and nothing else
CutKeepsPrefix == [][ret'.op = "loadcut" =>
                       /\ Len(order') = ret'.cut
                       /\ \A i \in 1..ret'.cut : /\ order'[i] = file[i].a
                                                 /\ score'[order'[i]] = file[i].s
                                                 /\ touched'[order'[i]] = file[i].t]_vars
\* a peer's score is the sum of the deltas applied to it since it was added (or loaded)
ScoreIsSum == [][ret'.op = "score" /\ ret'.ok => score'[ret'.a] = score[ret'.a] + ret'.d]_vars
=============================================================================
