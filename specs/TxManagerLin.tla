---------------------------- MODULE TxManagerLin ----------------------------
(* C06, code -> spec: linearization of concurrent calls recorded from the real *)
(* TxManager.  A trace is a sequence of rounds; the calls of one round were    *)
(* issued concurrently by different goroutines between two barriers, so any    *)
(* order of them is a candidate linearization.  TLC searches for an order in   *)
(* which every recorded reply is the reply TxManager.tla dictates, and at the  *)
(* end compares the number of times each transaction reached the processor.    *)
EXTENDS TxManager, Json, Sequences

VARIABLES tr,       \* index of the trace being validated
          rd,       \* current round
          pending,  \* calls of the current round not yet linearized
          fin       \* "run" | "ok"
lvars == <<vars, tr, rd, pending, fin>>

Traces == ndJsonDeserialize("trace.ndjson")
Round(t, r) == Traces[t].rounds[r].calls
SetOf(seq) == {seq[i] : i \in 1..Len(seq)}

LInit == /\ Init
         /\ tr \in 1..Len(Traces)
         /\ rd = 1 /\ fin = "run"
         /\ pending = 1..Len(Round(tr, 1))

Apply(c) ==
    CASE c.op = "announce" -> Announce(c.n, c.t) /\ ret'.req = c.req
      [] c.op = "deliver"  -> Deliver(c.n, c.t)
      [] c.op = "poll"     -> PollMax(c.n, SetOf(c.txs), c.max)
      [] c.op = "tick"     -> now' = now + 1 /\ ret' = [op |-> "tick"] /\ req' = {}
                              /\ UNCHANGED <<known, lastReq, announcers, received, forwarded, fwdBase>>

LinCall == /\ fin = "run"
           /\ \E i \in pending :
                 /\ Apply(Round(tr, rd)[i])
                 /\ pending' = pending \ {i}
           /\ UNCHANGED <<tr, rd, fin>>

NextRound == /\ fin = "run" /\ pending = {} /\ rd < Len(Traces[tr].rounds)
             /\ rd' = rd + 1 /\ pending' = 1..Len(Round(tr, rd + 1))
             /\ UNCHANGED <<vars, tr, fin>>

CountsMatch == /\ Traces[tr].runok
               /\ \A t \in Txs : forwarded[t] = Traces[tr].processed[t]
               /\ \A t \in Txs : Traces[tr].saved[t] = (IF t = "t1" THEN forwarded[t] ELSE 0)

Finish == /\ fin = "run" /\ pending = {} /\ rd = Len(Traces[tr].rounds)
          /\ IF CountsMatch THEN PrintT(<<"LINOK", tr>>)
             ELSE PrintT(<<"LINCOUNT", tr, ToJson([spec |-> forwarded, processed |-> Traces[tr].processed, saved |-> Traces[tr].saved])>>)
          /\ fin' = "ok"
          /\ UNCHANGED <<vars, tr, rd, pending>>

LNext == LinCall \/ NextRound \/ Finish
LSpec == LInit /\ [][LNext]_lvars
=============================================================================
