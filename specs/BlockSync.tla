------------------------------ MODULE BlockSync ------------------------------
(***************************************************************************)
(* Block synchronisation of NodeManager (node_manager.go):                 *)
(* TriggerBlockSynchronize / runSynchronizeBlocks / synchronizeBlocks.     *)
(*                                                                         *)
(* The best chain is a sequence of block ids indexed by height (it can     *)
(* grow and reorganise while a round is running); `processed` is the set   *)
(* of blocks whose relevant txids are recorded.  A round walks back from   *)
(* the tip to the most recent processed block (or the start height), then  *)
(* requests the blocks in ascending order; a block that left the best      *)
(* chain while pending is abandoned and ends the round.  A trigger either  *)
(* starts the thread or sets the restart flag; the decision to exit and    *)
(* the hand-over to the next trigger are one step (as repaired, see        *)
(* DESIGN.md C05).                                                         *)
(***************************************************************************)
EXTENDS Integers, Sequences, FiniteSets, TLC, Json

CONSTANTS MaxLen,     \* bound on the chain length (tip height <= MaxLen)
          Start,      \* StartBlockHeight
          MaxId,      \* block ids 1..MaxId (genesis is 0)
          MaxReorgs

VARIABLES chain,      \* chain[h+1] = id of the best-chain block at height h ; chain[1] = 0 (genesis)
          processed,  \* set of processed block ids
          nextId,
          thread,     \* "none" | "starting" (thread started, list not computed yet) | "round" | "decide"
          flag,       \* blockSyncNeeded
          todo,       \* remaining (height, id) pairs of the current round, ascending
          pending,    \* the request being processed: <<height, id>> or <<>>
          lastReq,    \* output: the request issued by the last step, <<>> if none
          roundReqs,  \* heights requested so far in the current round (bounded by MaxLen)
          reorgs,
          dirty       \* the chain changed since the last trigger
vars == <<chain, processed, nextId, thread, flag, todo, pending, lastReq, roundReqs, reorgs, dirty>>

Tip == Len(chain) - 1
IdAt(h) == chain[h + 1]
OnChain(h, id) == h <= Tip /\ IdAt(h) = id

\* synchronizeBlocks' walk-back, evaluated on the chain as it is when the round starts
RECURSIVE Walk(_, _)
Walk(h, acc) ==   \* acc = pairs collected so far (ascending), h = lowest height collected
    IF h <= Start THEN acc
    ELSE IF IdAt(h - 1) \in processed THEN acc
    ELSE Walk(h - 1, << <<h - 1, IdAt(h - 1)>> >> \o acc)
RoundList == IF Tip < Start THEN <<>>
             ELSE IF IdAt(Tip) \in processed THEN <<>>
             ELSE Walk(Tip, << <<Tip, IdAt(Tip)>> >>)

Init == /\ chain \in {[i \in 1..(n + 1) |-> i - 1] : n \in 0..MaxLen}      \* ids = heights initially
        /\ processed \in SUBSET (1..MaxLen)
        /\ nextId = MaxLen + 1
        /\ thread = "none" /\ flag = FALSE /\ todo = <<>> /\ pending = <<>> /\ lastReq = <<>>
        /\ roundReqs = <<>> /\ reorgs = 0 /\ dirty = TRUE

\* a new header (or the end of the startup delay) triggers synchronisation
Trigger == /\ IF thread = "none" THEN thread' = "starting" /\ UNCHANGED flag
              ELSE flag' = TRUE /\ UNCHANGED thread
           /\ lastReq' = <<>> /\ dirty' = FALSE
           /\ UNCHANGED <<chain, processed, nextId, todo, pending, roundReqs, reorgs>>

\* synchronizeBlocks reads the chain and computes the list of blocks to request
BeginRound == /\ thread = "starting"
              /\ thread' = "round" /\ todo' = RoundList /\ pending' = <<>> /\ roundReqs' = <<>>
              /\ lastReq' = <<>>
              /\ UNCHANGED <<chain, processed, nextId, flag, reorgs, dirty>>

\* the round asks the block manager for the next block
Request == /\ thread = "round" /\ pending = <<>> /\ todo # <<>>
           /\ pending' = Head(todo) /\ todo' = Tail(todo)
           /\ lastReq' = Head(todo)
           /\ roundReqs' = Append(roundReqs, Head(todo)[1])
           /\ UNCHANGED <<chain, processed, nextId, thread, flag, reorgs, dirty>>

\* the block manager completes the pending request (after any number of source failures)
Complete == /\ thread = "round" /\ pending # <<>>
            /\ processed' = processed \cup {pending[2]}
            /\ pending' = <<>> /\ lastReq' = <<>>
            /\ UNCHANGED <<chain, nextId, thread, flag, todo, roundReqs, reorgs, dirty>>

\* the pending block left the best chain: abandoned, the round ends
Abandon == /\ thread = "round" /\ pending # <<>> /\ ~OnChain(pending[1], pending[2])
           /\ pending' = <<>> /\ todo' = <<>> /\ lastReq' = <<>>
           /\ thread' = "decide"
           /\ UNCHANGED <<chain, processed, nextId, flag, roundReqs, reorgs, dirty>>

RoundDone == /\ thread = "round" /\ pending = <<>> /\ todo = <<>>
             /\ thread' = "decide" /\ lastReq' = <<>>
             /\ UNCHANGED <<chain, processed, nextId, flag, todo, pending, roundReqs, reorgs, dirty>>

\* runSynchronizeBlocks: restart if a trigger arrived meanwhile, else the thread ends - in one step
Decide == /\ thread = "decide"
          /\ IF flag THEN thread' = "starting" /\ flag' = FALSE
             ELSE thread' = "none" /\ UNCHANGED flag
          /\ lastReq' = <<>>
          /\ UNCHANGED <<chain, processed, nextId, todo, pending, roundReqs, reorgs, dirty>>

\* environment: the chain grows by one header, or reorganises from height h (new ids above it)
NewHeader == /\ Tip < MaxLen /\ nextId <= MaxId
             /\ chain' = Append(chain, nextId) /\ nextId' = nextId + 1
             /\ lastReq' = <<>> /\ dirty' = TRUE
             /\ UNCHANGED <<processed, thread, flag, todo, pending, roundReqs, reorgs>>
Reorg(h) == /\ reorgs < MaxReorgs /\ h \in 1..Tip /\ nextId + (Tip - h) <= MaxId
            /\ chain' = [i \in 1..Len(chain) |-> IF i - 1 < h THEN chain[i] ELSE nextId + (i - 1 - h)]
            /\ nextId' = nextId + (Tip - h + 1) /\ reorgs' = reorgs + 1
            /\ lastReq' = <<>> /\ dirty' = TRUE
            /\ UNCHANGED <<processed, thread, flag, todo, pending, roundReqs>>

Next == Trigger \/ BeginRound \/ Request \/ Complete \/ Abandon \/ RoundDone \/ Decide \/ NewHeader \/ (\E h \in 1..MaxLen : Reorg(h))
Fair == WF_vars(BeginRound) /\ WF_vars(Request) /\ WF_vars(Complete) /\ WF_vars(Abandon) /\ WF_vars(RoundDone) /\ WF_vars(Decide)
Spec == Init /\ [][Next]_vars /\ Fair

\* ------------------------------------------------------------------ scenario export (spec -> code)
ScnOut == [n |-> Tip, start |-> Start, processed |-> processed, reqs |-> RoundList]
EmitScn == PrintT(<<"SCN", ToJson(ScnOut)>>)
Stutter == UNCHANGED vars

\* ------------------------------------------------------------------ C05
\* never a block below the start height, never one already recorded as processed
NeverBelowStart == lastReq # <<>> => lastReq[1] >= Start
NeverProcessed == lastReq # <<>> => lastReq[2] \notin processed
\* within a round: strictly ascending, contiguous heights, each at most once
AscendingContiguous == \A i \in 1..(Len(roundReqs) - 1) : roundReqs[i + 1] = roundReqs[i] + 1
\* no trigger is lost: the restart flag is never left set while no thread is running
NoLostTrigger == (thread = "none") => ~flag
\* liveness: once a trigger has followed the last change of the chain, the blocks above the most recent
\* processed block are processed up to the tip (unless the chain changes again); blocks below an already
\* processed block are not revisited
TipProcessed == Tip < Start \/ IdAt(Tip) \in processed
SyncCompletes == (~dirty) ~> (dirty \/ TipProcessed)
==============================================================================
