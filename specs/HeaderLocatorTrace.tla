------------------------- MODULE HeaderLocatorTrace -------------------------
(* C19, code -> spec: judges locators recorded from the real repository.       *)
(* One record per line of trace.ndjson (written by `verifharness hdr -probe`): *)
(* the specification state at that step (pool, accepted set, tip, floor), the  *)
(* locators the repository returned for several maxima as (block, index-in-run)*)
(* pairs, and for every pool chain the outcome of submitting the reply of a    *)
(* protocol-conformant peer.  Each abstract block is a run of S real headers.  *)
EXTENDS HeaderChain, Json
CONSTANT S
VARIABLE l
tvars == <<vars, l>>

Trace == ndJsonDeserialize("trace.ndjson")
SetOf(seq) == {seq[i] : i \in 1..Len(seq)}

TInit == /\ l = 1
         /\ parent = [b \in Blocks |-> 0] /\ work = [b \in Blocks |-> 1]
         /\ acc = {0} /\ ever = {0} /\ tip = 0 /\ invalid = {} /\ subs = <<>>
         /\ floorB = 0 /\ unsure = {} /\ disk = [has |-> FALSE]
         /\ last = [op |-> "init", b |-> 0, verdict |-> "ok", delta |-> <<>>]

\* height of the header denoted by an entry
HH(e) == IF e.b = 0 THEN 0 ELSE (Height(e.b) - 1) * S + e.i + 1
TipH == S * Height(tip)
OnBest(e) == e.b \in Anc(tip)
Wellformed(loc, max, branches) ==
    LET bp == SelectSeq(loc, OnBest)
    IN IF \E i \in 1..Len(loc) : loc[i].b \notin acc THEN "entry is not an accepted header"
       ELSE IF \E i, j \in 1..Len(loc) : i # j /\ loc[i] = loc[j] THEN "duplicate hash"
       ELSE IF Len(bp) = 0 THEN "no best-chain hash"
       ELSE IF HH(bp[1]) # (IF TipH = 0 THEN 0 ELSE TipH - 1) THEN "does not begin with the tip's parent"
       ELSE IF \E i \in 1..(Len(bp) - 1) : HH(bp[i]) <= HH(bp[i + 1]) THEN "best-chain hashes not newest first"
       ELSE IF Len(loc) > max + branches - 1 THEN "more hashes than the requested maximum"
       ELSE "ok"

\* first locator entry on the chain of a peer whose tip is block c (0 = none)
SpecHit(c, loc) == LET hits == {i \in 1..Len(loc) : loc[i].b \in Anc(c)}
                   IN IF hits = {} THEN 0 ELSE MinSet(hits)

Bad(reason, extra) == PrintT(<<"LOCBAD", l - 1, reason, extra>>)

Judge(r) ==
    /\ IF r.err # "" THEN Bad("GetLocatorHashes returned an error", r.err) ELSE TRUE
    /\ \A k \in 1..Len(r.maxes) :
          LET max == r.maxes[k]
              loc == r.locs[ToString(max)]
              v == Wellformed(loc, max, r.branches)
          IN v = "ok" \/ Bad(v, ToString(max))
    /\ \A k \in 1..Len(r.probes) :
          LET p == r.probes[k]
              loc == r.locs[ToString(p.max)]
          IN /\ p.hit = SpecHit(p.c, loc) \/ Bad("harness peer disagrees with the specification's peer", ToString(p.c))
             /\ (p.verdict \in {"", "nil", "toodeep"}) \/ Bad("reply of a same-chain peer does not connect: " \o p.verdict, ToString(p.c))

TStep == /\ l <= Len(Trace)
         /\ LET r == Trace[l]
            IN /\ parent' = [b \in Blocks |-> r.parent[b]]
               /\ work' = [b \in Blocks |-> r.work[b]]
               /\ acc' = SetOf(r.acc) /\ tip' = r.tip /\ floorB' = r.floorB /\ unsure' = SetOf(r.unsure)
               /\ ever' = SetOf(r.acc) /\ invalid' = {} /\ subs' = <<>> /\ disk' = [has |-> FALSE]
               /\ last' = [op |-> "probe", b |-> r.step, verdict |-> "ok", delta |-> <<>>]
         /\ l' = l + 1
\* evaluated in the state loaded from record l-1; every failed judgement prints a LOCBAD line
Judged == l = 1 \/ Judge(Trace[l - 1])
TSpec == TInit /\ [][TStep]_tvars
Accepted == TLCGet("stats").diameter - 1 = Len(Trace)
=============================================================================
