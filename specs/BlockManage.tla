----------------------------- MODULE BlockManage -----------------------------
(***************************************************************************)
(* The block manager (block_manager.go): requests are processed one at a   *)
(* time; for the current request downloaders are started (at most Conc at  *)
(* a time, one more per request-delay tick); a downloader that finishes    *)
(* without error marks the request complete; completion or an abort from   *)
(* the requester cancels the remaining downloaders and ends the request    *)
(* with exactly one terminal signal.  A downloader is an abstraction of    *)
(* BlockDownload.tla: once started it ends with ok / failed / cancelled;   *)
(* after being cancelled it can only end cancelled (or ok if it was        *)
(* already finishing).                                                     *)
(***************************************************************************)
EXTENDS Integers, Sequences, FiniteSets, TLC
CONSTANTS NReq,       \* requests 1..NReq (block hashes), queued in this order
          Conc,       \* ConcurrentBlockRequests
          MaxDl       \* bound on downloaders per request (state constraint)

VARIABLES queue,      \* requests not yet started
          cur,        \* current request, 0 = none
          dls,        \* downloaders of the current and earlier requests: set of [id, req, st]
                      \* st in {"run", "cancelled"}; finished ones are removed (the list)
          nextId,
          marked,     \* current request marked complete (currentIsComplete)
          terminal,   \* [Reqs -> sequence of terminal signals sent to the requester]
          okBy,       \* [Reqs -> number of downloaders that finished without error]
          aborting    \* the requester closed abort for cur
vars == <<queue, cur, dls, nextId, marked, terminal, okBy, aborting>>

Init == /\ queue = [i \in 1..NReq |-> i] /\ cur = 0 /\ dls = {} /\ nextId = 1 /\ marked = FALSE
        /\ terminal = [r \in 1..NReq |-> <<>>] /\ okBy = [r \in 1..NReq |-> 0]
        /\ aborting = FALSE

Of(r) == {d \in dls : d.req = r}
Running(r) == {d \in Of(r) : d.st = "run"}

\* Run picks the next request
Take == /\ cur = 0 /\ queue # <<>>
        /\ cur' = Head(queue) /\ queue' = Tail(queue) /\ marked' = FALSE /\ aborting' = FALSE
        /\ UNCHANGED <<dls, nextId, terminal, okBy>>

\* requestBlock: initial request and one per delay tick while fewer than Conc are active
StartDownloader ==
        /\ cur # 0          \* also while marked / aborting: the manager's loop may take its timer case first
        /\ Cardinality(Of(cur)) < Conc
        /\ nextId <= MaxDl
        /\ dls' = dls \cup {[id |-> nextId, req |-> cur, st |-> "run"]}
        /\ nextId' = nextId + 1
        /\ UNCHANGED <<queue, cur, marked, terminal, okBy, aborting>>

\* a downloader's Run returns; onDownloaderCompleted removes it and, without error, marks its
\* request complete if that is still the current one
Finish(d, res) ==
        /\ d \in dls
        /\ res \in (IF d.st = "run" THEN {"ok", "failed"} ELSE {"cancelled", "ok"})
        /\ dls' = dls \ {d}
        /\ okBy' = IF res = "ok" THEN [okBy EXCEPT ![d.req] = @ + 1] ELSE okBy
        /\ marked' = IF res = "ok" /\ d.req = cur THEN TRUE ELSE marked
        /\ UNCHANGED <<queue, cur, nextId, terminal, aborting>>

Abort == /\ cur # 0 /\ ~aborting /\ aborting' = TRUE
         /\ UNCHANGED <<queue, cur, dls, nextId, marked, terminal, okBy>>

CancelAll(r) == {IF d.req = r THEN [d EXCEPT !.st = "cancelled"] ELSE d : d \in dls}

\* processRequest's select: completion (close(request.complete)) or abort (BlockAborted)
EndCompleted == /\ cur # 0 /\ marked
                /\ dls' = CancelAll(cur)
                /\ terminal' = [terminal EXCEPT ![cur] = Append(@, "completed")]
                /\ cur' = 0
                /\ UNCHANGED <<queue, nextId, marked, okBy, aborting>>
EndAborted == /\ cur # 0 /\ aborting
              /\ dls' = CancelAll(cur)
              /\ terminal' = [terminal EXCEPT ![cur] = Append(@, "aborted")]
              /\ cur' = 0
              /\ UNCHANGED <<queue, nextId, marked, okBy, aborting>>

Next == \/ Take \/ StartDownloader \/ Abort \/ EndCompleted \/ EndAborted
        \/ \E d \in dls, res \in {"ok", "failed", "cancelled"} : Finish(d, res)
Spec == Init /\ [][Next]_vars /\ WF_vars(\E d \in dls, res \in {"ok", "failed", "cancelled"} : Finish(d, res))
             /\ WF_vars(EndCompleted) /\ WF_vars(EndAborted) /\ WF_vars(Take)

\* ------------------------------------------------------------------ C16 (manager layer)
AtMostOneTerminal == \A r \in 1..NReq : Len(terminal[r]) <= 1
CompleteOnlyAfterOk == \A r \in 1..NReq : (Len(terminal[r]) = 1 /\ terminal[r][1] = "completed") => okBy[r] >= 1
ConcurrencyBound == \A r \in 1..NReq : Cardinality(Running(r)) <= Conc
\* once every request ended, the downloader list drains
ListDrains == <>[](cur = 0 /\ queue = <<>> => dls = {})
==============================================================================
