------------------------------ MODULE TxManager ------------------------------
(***************************************************************************)
(* Request / delivery bookkeeping of tx_manager.go (TxManager) with a      *)
(* logical clock: one Tick = one request timeout.                          *)
(*   Announce(n,t) = AddTxID(node n, txid t)  -> "request it now?"         *)
(*   Deliver(n,t)  = AddTx(node n, tx t)      -> forwarded to the processor*)
(*   Poll(n)       = GetTxRequests(node n)    -> txids to re-request from n *)
(* Each call is atomic under the per-entry lock of the implementation, so  *)
(* the sequential orders explored here are exactly its linearizations.     *)
(***************************************************************************)
EXTENDS Integers, Sequences, FiniteSets, TLC
CONSTANTS Nodes, Txs, MaxTime

VARIABLES now,
          known,      \* txids with an entry
          lastReq,    \* [Txs -> time of last request stamp]
          announcers, \* [Txs -> SUBSET Nodes]   (NodeIDs)
          received,   \* SUBSET Txs
          forwarded,  \* [Txs -> Nat]  number of times handed to the processor queue
          fwdBase,    \* [Txs -> Nat]  the same count at the last Clean (what the manager has forgotten)
          req,        \* requests issued by the last step: set of <<tx, node>> (output only, overwritten)
          ret         \* result of the last call
vars == <<now, known, lastReq, announcers, received, forwarded, fwdBase, req, ret>>

Init == /\ now = 0 /\ known = {} /\ lastReq = [t \in Txs |-> 0]
        /\ announcers = [t \in Txs |-> {}] /\ received = {}
        /\ forwarded = [t \in Txs |-> 0] /\ fwdBase = [t \in Txs |-> 0] /\ req = {}
        /\ ret = [op |-> "init"]

Expired(t) == now - lastReq[t] >= 1

Announce(n, t) ==
  /\ IF t \in received THEN
        /\ ret' = [op |-> "announce", n |-> n, t |-> t, req |-> FALSE]
        /\ req' = {}
        /\ UNCHANGED <<known, lastReq, announcers>>
     ELSE IF t \notin known THEN
        /\ known' = known \cup {t} /\ lastReq' = [lastReq EXCEPT ![t] = now]
        /\ req' = {<<t, n>>}
        /\ ret' = [op |-> "announce", n |-> n, t |-> t, req |-> TRUE]
        /\ UNCHANGED announcers
     ELSE IF ~Expired(t) THEN
        /\ announcers' = [announcers EXCEPT ![t] = @ \cup {n}]
        /\ ret' = [op |-> "announce", n |-> n, t |-> t, req |-> FALSE]
        /\ req' = {}
        /\ UNCHANGED <<known, lastReq>>
     ELSE
        /\ lastReq' = [lastReq EXCEPT ![t] = now]
        /\ announcers' = [announcers EXCEPT ![t] = @ \ {n}]
        /\ req' = {<<t, n>>}
        /\ ret' = [op |-> "announce", n |-> n, t |-> t, req |-> TRUE]
        /\ UNCHANGED known
  /\ UNCHANGED <<now, received, forwarded, fwdBase>>

Deliver(n, t) ==
  /\ IF t \in received THEN UNCHANGED <<received, forwarded, known, lastReq>>
     ELSE /\ received' = received \cup {t}
          /\ forwarded' = [forwarded EXCEPT ![t] = @ + 1]
          /\ known' = known \cup {t}
          /\ lastReq' = IF t \in known THEN lastReq ELSE [lastReq EXCEPT ![t] = now]
  /\ ret' = [op |-> "deliver", n |-> n, t |-> t] /\ req' = {}
  /\ UNCHANGED <<now, announcers, fwdBase>>

\* GetTxRequests(n, max): the implementation checks the limit only between internal buckets, so it
\* may return more than max; what the property needs is that exactly the returned set S is stamped
\* as requested from n, that nothing is held back while the limit is not reached, and that at least
\* max are returned when more are due.
PollMax(n, S, max) ==
  LET due == {t \in known : t \notin received /\ n \in announcers[t] /\ Expired(t)}
  IN /\ S \subseteq due
     /\ (Cardinality(due) <= max => S = due)
     /\ (Cardinality(due) > max => Cardinality(S) >= max)
     /\ lastReq' = [t \in Txs |-> IF t \in S THEN now ELSE lastReq[t]]
     /\ announcers' = [t \in Txs |-> IF t \in S THEN announcers[t] \ {n} ELSE announcers[t]]
     /\ req' = {<<t, n>> : t \in S}
     /\ ret' = [op |-> "poll", n |-> n, txs |-> S, max |-> max]
     /\ UNCHANGED <<now, known, received, forwarded, fwdBase>>

Unlimited == 1000000
Poll(n) == PollMax(n, {t \in known : t \notin received /\ n \in announcers[t] /\ Expired(t)}, Unlimited)

Tick == /\ now < MaxTime /\ now' = now + 1 /\ ret' = [op |-> "tick"] /\ req' = {}
        /\ UNCHANGED <<known, lastReq, announcers, received, forwarded, fwdBase>>

\* TxManager.Clean(oldest) with a cut-off after everything the manager holds: every entry is forgotten.  From
\* then on a transaction is new again: its next announcement is requested, its next delivery is forwarded - once
\* more, and once only, until the next Clean.  (MaxCleaned bounds the model, not the implementation.)
MaxForwards == 2
CleanAll == /\ known # {} /\ \A t \in Txs : forwarded[t] < MaxForwards
            /\ known' = {} /\ received' = {} /\ announcers' = [t \in Txs |-> {}]
            /\ lastReq' = [t \in Txs |-> 0] /\ fwdBase' = forwarded
            /\ ret' = [op |-> "clean"] /\ req' = {}
            /\ UNCHANGED <<now, forwarded>>

Next == \/ \E n \in Nodes, t \in Txs : Announce(n, t) \/ Deliver(n, t)
        \/ \E n \in Nodes : Poll(n)
        \/ \E n \in Nodes, S \in SUBSET Txs : PollMax(n, S, 1)
        \/ Tick \/ CleanAll
Spec == Init /\ [][Next]_vars

\* ---- C06
\* exactly once per period in which the manager remembers the transaction
ForwardedAtMostOnce == \A t \in Txs : forwarded[t] - fwdBase[t] = (IF t \in received THEN 1 ELSE 0)
\* a request is only issued for a tx that is new or whose previous request has timed out
OneOutstandingPerWindow == [][\A p \in req' : p[1] \notin known \/ Expired(p[1])]_vars
\* at most one peer is asked per step for one tx
OnePeerPerStep == \A p, q \in req : p[1] = q[1] => p = q
NeverAfterDelivery == [][\A p \in req' : p[1] \notin received]_vars
\* Poll only asks peers that announced the tx
OnlyAnnouncersAsked == [][ret'.op = "poll" => \A p \in req' : p[2] \in announcers[p[1]]]_vars
Due(n) == {t \in known : t \notin received /\ n \in announcers[t] /\ Expired(t)}
Requestable == [][ret'.op = "poll" =>
                     /\ ret'.txs \subseteq Due(ret'.n)
                     /\ (Cardinality(Due(ret'.n)) <= ret'.max => ret'.txs = Due(ret'.n))
                     /\ (Due(ret'.n) # {} => ret'.txs # {})]_vars
\* what is handed out is exactly what is stamped: a due tx that was not returned stays due
HeldBackStaysDue == [][ret'.op = "poll" =>
                     \A t \in Due(ret'.n) \ ret'.txs : lastReq'[t] = lastReq[t] /\ ret'.n \in announcers'[t]]_vars
==============================================================================
