---------------------------- MODULE BlockDownload ----------------------------
(***************************************************************************)
(* One BlockDownloader (block_downloader.go) with the node side of a block *)
(* request (bitcoin_node.go RequestBlock / CancelBlockRequest / run exit,  *)
(* handlers.go handleBlock / completeBlock), the manager's Cancel (+ thread*)
(* stop) and shutdown.  Each lock section / channel operation is one step, *)
(* so TLC explores every interleaving of Run, the handler, Cancel, Stop    *)
(* and interrupt.  The timeouts of the code (2 min / 1 h / 10 min) are     *)
(* deliberately NOT modelled: termination must not depend on them.         *)
(*                                                                         *)
(* Node side as repaired (see DESIGN.md, C16): the block reader is only    *)
(* published - and a cancel only answered "already started" - once the tx  *)
(* count has been read and the handler is certain to be launched.          *)
(***************************************************************************)
EXTENDS Integers, Sequences, FiniteSets, TLC
CONSTANTS NTx        \* number of txs the peer will deliver before end of stream
Cap == 2
VARIABLES started, complete,         \* channel contents (sequences), capacity 2
          isCancelled, isStarted, isComplete,   \* downloader flags (stateLock)
          nReq, nReader, nHandler, nOnStop,     \* node: blockRequest set?, blockReader set?, handler set?, onStop set?
          readerClosed,
          runPc, runResult,
          hPc, hTx,                  \* node handler pc, txs handed
          cPc, cSendS, cSendC,       \* manager Cancel call
          sPc, sSend,                \* node Stop (blockOnStop) call
          rcPc, rcSendS, rcSendC,    \* Cancel issued by Run on interrupt
          interrupted
vars == <<started, complete, isCancelled, isStarted, isComplete, nReq, nReader, nHandler, nOnStop,
          readerClosed, runPc, runResult, hPc, hTx, cPc, cSendS, cSendC, sPc, sSend, rcPc, rcSendS, rcSendC, interrupted>>

Init == /\ started = <<>> /\ complete = <<>>
        /\ isCancelled = FALSE /\ isStarted = FALSE /\ isComplete = FALSE
        /\ nReq = TRUE /\ nReader = FALSE /\ nHandler = TRUE /\ nOnStop = TRUE /\ readerClosed = FALSE
        /\ runPc = "wait1" /\ runResult = "none"
        /\ hPc = "idle" /\ hTx = 0
        /\ cPc = "idle" /\ cSendS = FALSE /\ cSendC = FALSE
        /\ sPc = "idle" /\ sSend = FALSE
        /\ rcPc = "idle" /\ rcSendS = FALSE /\ rcSendC = FALSE
        /\ interrupted = FALSE

Send(ch, v) == Len(ch) < Cap /\ ch' = Append(ch, v)

\* ---------------- node.CancelBlockRequest (under node lock) : returns alreadyStarted
NodeCancel(already) ==
   IF ~nReq THEN /\ already = FALSE /\ UNCHANGED <<nReader, nHandler, nOnStop, readerClosed>>
   ELSE IF nReader THEN /\ already = TRUE /\ readerClosed' = TRUE /\ nReader' = FALSE
                        /\ nOnStop' = FALSE /\ nHandler' = FALSE
   ELSE /\ already = FALSE /\ nOnStop' = FALSE /\ nHandler' = FALSE /\ UNCHANGED <<nReader, readerClosed>>

\* ---------------- Cancel body under stateLock (generic over which caller)
CancelLocked(sendS, sendC) ==
   IF isComplete THEN /\ sendS = FALSE /\ sendC = FALSE
                      /\ UNCHANGED <<isCancelled, nReader, nHandler, nOnStop, readerClosed>>
   ELSE IF isCancelled THEN /\ sendS = FALSE /\ sendC = FALSE
                            /\ UNCHANGED <<isCancelled, nReader, nHandler, nOnStop, readerClosed>>
   ELSE \E already \in BOOLEAN :
          /\ NodeCancel(already)
          /\ sendC = ~already
          /\ sendS = ~isStarted
          /\ isCancelled' = TRUE

\* ---------------- manager: Cancel (then thread.Stop => interrupt)
MgrCancelLock == /\ cPc = "idle"
                 /\ \E s, c \in BOOLEAN : CancelLocked(s, c) /\ cSendS' = s /\ cSendC' = c
                 /\ cPc' = "sendS"
                 /\ UNCHANGED <<started, complete, isStarted, isComplete, nReq, runPc, runResult, hPc, hTx, sPc, sSend, rcPc, rcSendS, rcSendC, interrupted>>
MgrCancelSendS == /\ cPc = "sendS"
                  /\ IF cSendS THEN Send(started, "true") ELSE UNCHANGED started
                  /\ cPc' = "sendC"
                  /\ UNCHANGED <<complete, isCancelled, isStarted, isComplete, nReq, nReader, nHandler, nOnStop, readerClosed, runPc, runResult, hPc, hTx, cSendS, cSendC, sPc, sSend, rcPc, rcSendS, rcSendC, interrupted>>
MgrCancelSendC == /\ cPc = "sendC"
                  /\ IF cSendC THEN Send(complete, "cancelled") ELSE UNCHANGED complete
                  /\ cPc' = "stopThread"
                  /\ UNCHANGED <<started, isCancelled, isStarted, isComplete, nReq, nReader, nHandler, nOnStop, readerClosed, runPc, runResult, hPc, hTx, cSendS, cSendC, sPc, sSend, rcPc, rcSendS, rcSendC, interrupted>>
MgrStopThread == /\ cPc = "stopThread" /\ interrupted' = TRUE /\ cPc' = "done"
                 /\ UNCHANGED <<started, complete, isCancelled, isStarted, isComplete, nReq, nReader, nHandler, nOnStop, readerClosed, runPc, runResult, hPc, hTx, cSendS, cSendC, sPc, sSend, rcPc, rcSendS, rcSendC>>

\* ---------------- the peer drops the connection: every read fails from now on
ConnLost == /\ ~readerClosed /\ readerClosed' = TRUE
            /\ UNCHANGED <<started, complete, isCancelled, isStarted, isComplete, nReq, nReader, nHandler, nOnStop, runPc, runResult, hPc, hTx, cPc, cSendS, cSendC, sPc, sSend, rcPc, rcSendS, rcSendC, interrupted>>

\* downloader.Stop under its state lock; called by the node's run() when it exits (blockOnStop still
\* set) and by handleBlock when the tx count cannot be read
StopLocked == /\ IF isComplete THEN (sSend' = FALSE /\ UNCHANGED isCancelled)
                 ELSE /\ sSend' = (~isCancelled /\ ~isStarted)
                      /\ isCancelled' = TRUE
              /\ sPc' = "sendS"

\* ---------------- node run() exit after the connection is gone
\* The node reads blockOnStop under its own lock, releases that lock and only then calls it: a Cancel (of the
\* manager, or of Run after an interrupt) can run to completion in between, so downloader.Stop can be called
\* after downloader.Cancel.  Two steps.
NodeStopRead == /\ sPc = "idle" /\ nOnStop /\ readerClosed
                /\ sPc' = "read"
                /\ UNCHANGED <<started, complete, isCancelled, isStarted, isComplete, nReq, nReader, nHandler, nOnStop, readerClosed, runPc, runResult, hPc, hTx, cPc, cSendS, cSendC, sSend, rcPc, rcSendS, rcSendC, interrupted>>
NodeStopLock == /\ sPc = "read"
                /\ StopLocked
                /\ UNCHANGED <<started, complete, isStarted, isComplete, nReq, nReader, nHandler, nOnStop, readerClosed, runPc, runResult, hPc, hTx, cPc, cSendS, cSendC, rcPc, rcSendS, rcSendC, interrupted>>
NodeStopSendS == /\ sPc = "sendS"
                 /\ IF sSend THEN Send(started, "true") ELSE UNCHANGED started
                 /\ sPc' = "sendC"
                 /\ UNCHANGED <<complete, isCancelled, isStarted, isComplete, nReq, nReader, nHandler, nOnStop, readerClosed, runPc, runResult, hPc, hTx, cPc, cSendS, cSendC, sSend, rcPc, rcSendS, rcSendC, interrupted>>
NodeStopSendC == /\ sPc = "sendC"
                 /\ IF sSend THEN Send(complete, "cancelled") ELSE UNCHANGED complete
                 /\ sPc' = "done"
                 /\ UNCHANGED <<started, isCancelled, isStarted, isComplete, nReq, nReader, nHandler, nOnStop, readerClosed, runPc, runResult, hPc, hTx, cPc, cSendS, cSendC, sSend, rcPc, rcSendS, rcSendC, interrupted>>

\* ---------------- node handleBlock (message arrives for the requested hash)
HArrive == /\ hPc = "idle" /\ ~readerClosed
           /\ IF ~nReq THEN hPc' = "done"
              ELSE IF ~nHandler THEN hPc' = "completeBlock"
              ELSE hPc' = "readCount"
           /\ UNCHANGED <<started, complete, isCancelled, isStarted, isComplete, nReq, nReader, nHandler, nOnStop, readerClosed, runPc, runResult, hTx, cPc, cSendS, cSendC, sPc, sSend, rcPc, rcSendS, rcSendC, interrupted>>
\* the tx count is read before anything is published; then, under the node lock, the request may have
\* been cancelled meanwhile (handler cleared) or the connection may be gone
HReadCount == /\ hPc = "readCount"
              /\ IF readerClosed THEN hPc' = "callStop" /\ UNCHANGED nReader           \* the read fails
                 ELSE IF ~nHandler THEN hPc' = "completeBlock" /\ UNCHANGED nReader     \* cancelled meanwhile
                 ELSE nReader' = TRUE /\ hPc' = "sendStarted"
              /\ UNCHANGED <<started, complete, isCancelled, isStarted, isComplete, nReq, nHandler, nOnStop, readerClosed, runPc, runResult, hTx, cPc, cSendS, cSendC, sPc, sSend, rcPc, rcSendS, rcSendC, interrupted>>
\* the handler will not be started: tell the requester (downloader.Stop), unless the request was
\* cancelled or run() already did
HCallStop == /\ hPc = "callStop"
             /\ IF nOnStop /\ sPc = "idle"
                THEN sPc' = "read" /\ hPc' = "waitStop"            \* blockOnStop read under the lock; called next
                ELSE hPc' = "completeBlock" /\ UNCHANGED sPc
             /\ UNCHANGED <<started, complete, isCancelled, isStarted, isComplete, nReq, nReader, nHandler, nOnStop, readerClosed, runPc, runResult, hTx, cPc, cSendS, cSendC, sSend, rcPc, rcSendS, rcSendC, interrupted>>
HWaitStop == /\ hPc = "waitStop" /\ sPc = "done" /\ hPc' = "completeBlock"
             /\ UNCHANGED <<started, complete, isCancelled, isStarted, isComplete, nReq, nReader, nHandler, nOnStop, readerClosed, runPc, runResult, hTx, cPc, cSendS, cSendC, sPc, sSend, rcPc, rcSendS, rcSendC, interrupted>>
HSendStarted == /\ hPc = "sendStarted" /\ Send(started, "hash")
                /\ hPc' = "checkCancel"
                /\ UNCHANGED <<complete, isCancelled, isStarted, isComplete, nReq, nReader, nHandler, nOnStop, readerClosed, runPc, runResult, hTx, cPc, cSendS, cSendC, sPc, sSend, rcPc, rcSendS, rcSendC, interrupted>>
HCheckCancel == /\ hPc = "checkCancel"
                /\ hPc' = IF isCancelled THEN "sendCancelled" ELSE "txLoop"
                /\ UNCHANGED <<started, complete, isCancelled, isStarted, isComplete, nReq, nReader, nHandler, nOnStop, readerClosed, runPc, runResult, hTx, cPc, cSendS, cSendC, sPc, sSend, rcPc, rcSendS, rcSendC, interrupted>>
HTx == /\ hPc = "txLoop"
       /\ IF readerClosed THEN (hPc' = "sendCancelled" /\ UNCHANGED hTx)      \* stream cut: count mismatch => cancelled error
          ELSE IF hTx < NTx THEN /\ hTx' = hTx + 1
                                 /\ hPc' = IF isCancelled THEN "sendCancelled" ELSE "txLoop"
          ELSE hPc' = (IF isCancelled THEN "sendCancelled" ELSE "sendOk") /\ UNCHANGED hTx
       /\ UNCHANGED <<started, complete, isCancelled, isStarted, isComplete, nReq, nReader, nHandler, nOnStop, readerClosed, runPc, runResult, cPc, cSendS, cSendC, sPc, sSend, rcPc, rcSendS, rcSendC, interrupted>>
HSendCancelled == /\ hPc = "sendCancelled" /\ Send(complete, "cancelled") /\ hPc' = "completeBlock"
                  /\ UNCHANGED <<started, isCancelled, isStarted, isComplete, nReq, nReader, nHandler, nOnStop, readerClosed, runPc, runResult, hTx, cPc, cSendS, cSendC, sPc, sSend, rcPc, rcSendS, rcSendC, interrupted>>
HSendOk == /\ hPc = "sendOk" /\ Send(complete, "nil") /\ hPc' = "completeBlock"
           /\ UNCHANGED <<started, isCancelled, isStarted, isComplete, nReq, nReader, nHandler, nOnStop, readerClosed, runPc, runResult, hTx, cPc, cSendS, cSendC, sPc, sSend, rcPc, rcSendS, rcSendC, interrupted>>
HCompleteBlock == /\ hPc = "completeBlock"
                  /\ nReq' = FALSE /\ nReader' = FALSE /\ nHandler' = FALSE /\ nOnStop' = FALSE
                  /\ hPc' = "done"
                  /\ UNCHANGED <<started, complete, isCancelled, isStarted, isComplete, readerClosed, runPc, runResult, hTx, cPc, cSendS, cSendC, sPc, sSend, rcPc, rcSendS, rcSendC, interrupted>>

\* ---------------- downloader Run
RunRecvStarted == /\ runPc = "wait1" /\ Len(started) > 0
                  /\ started' = Tail(started) /\ isStarted' = TRUE /\ runPc' = "wait2"
                  /\ UNCHANGED <<complete, isCancelled, isComplete, nReq, nReader, nHandler, nOnStop, readerClosed, runResult, hPc, hTx, cPc, cSendS, cSendC, sPc, sSend, rcPc, rcSendS, rcSendC, interrupted>>
RunRecvComplete == /\ runPc \in {"wait1", "wait2", "cancelWait"} /\ Len(complete) > 0
                   /\ (runPc = "cancelWait" => rcPc = "done")
                   /\ complete' = Tail(complete) /\ isComplete' = TRUE
                   /\ runResult' = IF runPc = "cancelWait" THEN "interrupted" ELSE Head(complete)
                   /\ runPc' = "done"
                   /\ UNCHANGED <<started, isCancelled, isStarted, nReq, nReader, nHandler, nOnStop, readerClosed, hPc, hTx, cPc, cSendS, cSendC, sPc, sSend, rcPc, rcSendS, rcSendC, interrupted>>
RunInterrupt == /\ runPc \in {"wait1", "wait2"} /\ interrupted
                /\ runPc' = "cancelWait" /\ rcPc' = "lock"
                /\ UNCHANGED <<started, complete, isCancelled, isStarted, isComplete, nReq, nReader, nHandler, nOnStop, readerClosed, runResult, hPc, hTx, cPc, cSendS, cSendC, sPc, sSend, rcSendS, rcSendC, interrupted>>
RunCancelLock == /\ rcPc = "lock"
                 /\ \E s, c \in BOOLEAN : CancelLocked(s, c) /\ rcSendS' = s /\ rcSendC' = c
                 /\ rcPc' = "sendS"
                 /\ UNCHANGED <<started, complete, isStarted, isComplete, nReq, runPc, runResult, hPc, hTx, cPc, cSendS, cSendC, sPc, sSend, interrupted>>
RunCancelSendS == /\ rcPc = "sendS"
                  /\ IF rcSendS THEN Send(started, "true") ELSE UNCHANGED started
                  /\ rcPc' = "sendC"
                  /\ UNCHANGED <<complete, isCancelled, isStarted, isComplete, nReq, nReader, nHandler, nOnStop, readerClosed, runPc, runResult, hPc, hTx, cPc, cSendS, cSendC, sPc, sSend, rcSendS, rcSendC, interrupted>>
RunCancelSendC == /\ rcPc = "sendC"
                  /\ IF rcSendC THEN Send(complete, "cancelled") ELSE UNCHANGED complete
                  /\ rcPc' = "done"
                  /\ UNCHANGED <<started, isCancelled, isStarted, isComplete, nReq, nReader, nHandler, nOnStop, readerClosed, runPc, runResult, hPc, hTx, cPc, cSendS, cSendC, sPc, sSend, rcSendS, rcSendC, interrupted>>
\* shutdown interrupt from elsewhere
Shutdown == /\ ~interrupted /\ interrupted' = TRUE
            /\ UNCHANGED <<started, complete, isCancelled, isStarted, isComplete, nReq, nReader, nHandler, nOnStop, readerClosed, runPc, runResult, hPc, hTx, cPc, cSendS, cSendC, sPc, sSend, rcPc, rcSendS, rcSendC>>

Handler == HArrive \/ HReadCount \/ HCallStop \/ HWaitStop \/ HSendStarted \/ HCheckCancel \/ HTx \/ HSendCancelled \/ HSendOk \/ HCompleteBlock
Mgr == MgrCancelLock \/ MgrCancelSendS \/ MgrCancelSendC \/ MgrStopThread
NodeStop == NodeStopRead \/ NodeStopLock \/ NodeStopSendS \/ NodeStopSendC
Run == RunRecvStarted \/ RunRecvComplete \/ RunInterrupt \/ RunCancelLock \/ RunCancelSendS \/ RunCancelSendC
Next == Handler \/ Mgr \/ NodeStop \/ Run \/ Shutdown \/ ConnLost

\* A terminating event must happen: the manager cancels, the node stops, shutdown, or the block arrives.
Fairness == WF_vars(Run) /\ WF_vars(Handler) /\ WF_vars(MgrCancelSendS \/ MgrCancelSendC \/ MgrStopThread)
            /\ WF_vars(NodeStop)
Spec == Init /\ [][Next]_vars /\ Fairness

\* once any of cancel / stop / shutdown / arrival has happened, Run must return
Triggered == cPc # "idle" \/ sPc # "idle" \/ interrupted \/ hPc # "idle" \/ readerClosed
RunReturns == Triggered ~> runPc = "done"
NoSendBlocked == Len(started) <= Cap /\ Len(complete) <= Cap
CompleteOnlyAfterOk == runResult = "nil" => hPc \in {"completeBlock", "done"} /\ hTx = NTx
==============================================================================
