CONSTANTS N = 4
  Works = {1,2}
  MaxDepth = 4
  P = 2
  MaxSubs = 1
SPECIFICATION SpecMark
INVARIANTS TypeOK TipMaxWork MarkedExcluded
PROPERTIES RefusalChangesNothing FallsBack SaveLoadSame
CHECK_DEADLOCK FALSE
