CONSTANTS N = 3
  Works = {1,2}
  MaxDepth = 3
  P = 2
  MaxSubs = 1
  AutoEvery = 0
SPECIFICATION SpecMark
INVARIANTS TypeOK TipMaxWork MarkedExcluded
PROPERTIES RefusalChangesNothing FallsBack SaveLoadSame
CHECK_DEADLOCK FALSE
