------------------------------ MODULE SplitGuard ------------------------------
(***************************************************************************)
(* Chain-split protection of headers.Repository.ProcessHeader (C03, header *)
(* side).  Hs is the split height (556767 on mainnet).  The pool contains  *)
(* the real chain around the split (M), the BSV split header (the only     *)
(* header acceptable at Hs), the BCH split header, other headers offered   *)
(* at Hs on the main chain and on forks created one and two blocks below,  *)
(* a fork of a fork that overtakes, and headers with unknown parents.  Any  *)
(* offer order, with the maintenance operation at any point.                *)
(***************************************************************************)
EXTENDS Integers, Sequences, FiniteSets, TLC, Json
CONSTANTS Depth,      \* offers per behaviour
          Offerable,  \* names that may be offered
          Prefix      \* a sequence of names (or "clean") that every behaviour starts with, then any order

\* pool: name -> [parent, rel]   rel = height - Hs ; "base" (rel -4) is held from the start
Pool == [ m3   |-> [parent |-> "base", rel |-> -3],     \* real chain
          m2   |-> [parent |-> "m3",   rel |-> -2],
          m1   |-> [parent |-> "m2",   rel |-> -1],     \* real 556766, the fork point of the splits
          bsv  |-> [parent |-> "m1",   rel |-> 0],      \* the BSV split header
          m_1  |-> [parent |-> "bsv",  rel |-> 1],      \* real 556768
          m_2  |-> [parent |-> "m_1",  rel |-> 2],
          bch  |-> [parent |-> "m1",   rel |-> 0],      \* the BCH split header
          x0   |-> [parent |-> "m1",   rel |-> 0],      \* some other header on top of 556766
          f1   |-> [parent |-> "m2",   rel |-> -1],     \* fork created one below the split height
          f1x  |-> [parent |-> "f1",   rel |-> 0],      \* ... and its header at the split height
          g3   |-> [parent |-> "base", rel |-> -3],     \* fork created three below
          g2   |-> [parent |-> "g3",   rel |-> -2],
          g1   |-> [parent |-> "g2",   rel |-> -1],
          g0   |-> [parent |-> "g1",   rel |-> 0],
          h2   |-> [parent |-> "g3",   rel |-> -2],     \* a fork of that fork, with more work than everything else:
          h1   |-> [parent |-> "h2",   rel |-> -1],     \* it becomes the best chain and a clean consolidates it,
          h0   |-> [parent |-> "h1",   rel |-> 0],      \* re-hanging g2 g1 below it
          adv  |-> [parent |-> "m_2",  rel |-> 3],      \* the real chain advances by 150 more headers (one offer):
                                                        \* the split height is then deeper than the fork depth limit
          late |-> [parent |-> "m_1",  rel |-> 2],      \* fork above the split: unaffected
          orph |-> [parent |-> "nowhere", rel |-> 5],   \* unknown parent
          gen1 |-> [parent |-> "genesis", rel |-> -556766] ]   \* child of genesis while genesis is not held
Names == DOMAIN Pool

VARIABLES acc, last, hist
vars == <<acc, last, hist>>

Init == acc = {"base"} /\ last = [b |-> "", verdict |-> "init"] /\ hist = <<>>

Verdict(b) ==
    IF Pool[b].parent \notin acc
    THEN IF b = "bch" THEN "wrongchain"                   \* a known foreign split header, wherever it is offered
         ELSE IF Pool[b].parent = "genesis" THEN "wrongchain"
         ELSE "unknown"
    ELSE IF b \in acc THEN "known"
    ELSE IF Pool[b].rel = 0 THEN (IF b = "bsv" THEN "ok" ELSE "wrongchain")
    ELSE "ok"

Forced(b) == IF Len(hist) >= Len(Prefix) THEN TRUE ELSE Prefix[Len(hist) + 1] = b
Offer(b) == /\ Len(hist) < Depth /\ Forced(b)
            /\ LET v == Verdict(b)
               IN /\ acc' = IF v = "ok" THEN acc \cup {b} ELSE acc
                  /\ last' = [b |-> b, verdict |-> v]
                  /\ hist' = Append(hist, [b |-> b, verdict |-> v])
\* Clean (consolidation of the best chain, re-hanging of the other branches) changes nothing the verdicts
\* depend on; it is in the behaviours because the code's height bookkeeping is rebuilt by it.
Clean == /\ Len(hist) < Depth /\ "clean" \in Offerable /\ last.b # "clean" /\ Forced("clean")
         /\ last' = [b |-> "clean", verdict |-> "ok"]
         /\ hist' = Append(hist, [b |-> "clean", verdict |-> "ok"])
         /\ UNCHANGED acc
Next == (\E b \in (Offerable \cup {Prefix[i] : i \in 1..Len(Prefix)}) \ {"clean"} : Offer(b)) \/ Clean
Spec == Init /\ [][Next]_vars

\* C03: no header other than the BSV split header is ever accepted at the split height, on any branch
AtSplitOnlyBSV == \A b \in acc \ {"base"} : Pool[b].rel = 0 => b = "bsv"
ForeignAlwaysRefused == last.b = "bch" => last.verdict = "wrongchain"
BSVAccepted == (last.b = "bsv" /\ last.verdict \notin {"ok", "known"}) => "m1" \notin acc
Emit == Len(hist) < Depth \/ PrintT(<<"BEH", ToJson([offers |-> hist])>>)
==============================================================================
