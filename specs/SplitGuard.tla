------------------------------ MODULE SplitGuard ------------------------------
(***************************************************************************)
(* Chain-split protection of headers.Repository.ProcessHeader (C03, header *)
(* side).  Hs is the split height (556767 on mainnet).  The pool contains  *)
(* the real chain around the split (M), the BSV split header (the only     *)
(* header acceptable at Hs), the BCH split header, other headers offered   *)
(* at Hs on the main chain and on forks created one and two blocks below,  *)
(* and headers with unknown parents.  Any offer order.                     *)
(***************************************************************************)
EXTENDS Integers, Sequences, FiniteSets, TLC, Json
CONSTANTS Depth,      \* offers per behaviour
          Offerable   \* names that may be offered

\* pool: name -> [parent, rel]   rel = height - Hs ; "base" (rel -3) is held from the start
Pool == [ m2   |-> [parent |-> "base", rel |-> -2],     \* real chain
          m1   |-> [parent |-> "m2",   rel |-> -1],     \* real 556766, the fork point of the splits
          bsv  |-> [parent |-> "m1",   rel |-> 0],      \* the BSV split header
          m_1  |-> [parent |-> "bsv",  rel |-> 1],      \* real 556768
          m_2  |-> [parent |-> "m_1",  rel |-> 2],
          bch  |-> [parent |-> "m1",   rel |-> 0],      \* the BCH split header
          x0   |-> [parent |-> "m1",   rel |-> 0],      \* some other header on top of 556766
          f1   |-> [parent |-> "m2",   rel |-> -1],     \* fork created one below the split height
          f1x  |-> [parent |-> "f1",   rel |-> 0],      \* ... and its header at the split height
          g2   |-> [parent |-> "base", rel |-> -2],     \* fork created two below
          g1   |-> [parent |-> "g2",   rel |-> -1],
          g0   |-> [parent |-> "g1",   rel |-> 0],
          late |-> [parent |-> "m_1",  rel |-> 2],      \* fork above the split: unaffected
          orph |-> [parent |-> "nowhere", rel |-> 5],   \* unknown parent
          gen1 |-> [parent |-> "genesis", rel |-> -556766] ]   \* child of genesis while genesis is not held
Names == DOMAIN Pool

VARIABLES acc, last, hist
vars == <<acc, last, hist>>

Init == acc = {"base"} /\ last = [b |-> "", verdict |-> "init"] /\ hist = <<>>

Verdict(b) ==
    IF Pool[b].parent \notin acc
    THEN IF b = "bch" THEN "wrongchain"                   \* a known foreign split header, wherever it is offered
         ELSE IF Pool[b].parent = "genesis" THEN "wrongchain"
         ELSE "unknown"
    ELSE IF b \in acc THEN "known"
    ELSE IF Pool[b].rel = 0 THEN (IF b = "bsv" THEN "ok" ELSE "wrongchain")
    ELSE "ok"

Offer(b) == /\ Len(hist) < Depth
            /\ LET v == Verdict(b)
               IN /\ acc' = IF v = "ok" THEN acc \cup {b} ELSE acc
                  /\ last' = [b |-> b, verdict |-> v]
                  /\ hist' = Append(hist, [b |-> b, verdict |-> v])
Next == \E b \in Offerable : Offer(b)
Spec == Init /\ [][Next]_vars

\* C03: no header other than the BSV split header is ever accepted at the split height, on any branch
AtSplitOnlyBSV == \A b \in acc \ {"base"} : Pool[b].rel = 0 => b = "bsv"
ForeignAlwaysRefused == last.b = "bch" => last.verdict = "wrongchain"
BSVAccepted == (last.b = "bsv" /\ last.verdict \notin {"ok", "known"}) => "m1" \notin acc
Emit == Len(hist) < Depth \/ PrintT(<<"BEH", ToJson([offers |-> hist])>>)
==============================================================================
