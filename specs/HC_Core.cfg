CONSTANTS N = 5
  Works = {1,2}
  MaxDepth = 1
  P = 2
  MaxSubs = 1
  AutoEvery = 0
SPECIFICATION SpecCore
INVARIANTS TypeOK TipMaxWork MarkedExcluded StreamReconstructs OnlyBestAnnounced
PROPERTIES RefusalChangesNothing CleanChangesNothing NoWorkLoss
CHECK_DEADLOCK FALSE
