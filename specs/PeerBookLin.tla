---------------------------- MODULE PeerBookLin ----------------------------
(* C20, code -> spec: concurrent callers of the real peer address book.  The  *)
(* calls of one round ran concurrently between two barriers; TLC searches an  *)
(* order in which every recorded reply is the one PeerBook.tla dictates and   *)
(* the final book equals the recorded one.                                    *)
EXTENDS PeerBook, Json

VARIABLES tr, rd, pending, fin
lvars == <<vars, tr, rd, pending, fin>>

Traces == ndJsonDeserialize("trace.ndjson")
Round(t, r) == Traces[t].rounds[r]
SetOf(seq) == {seq[i] : i \in 1..Len(seq)}

LInit == /\ Init /\ tr \in 1..Len(Traces) /\ rd = 1 /\ fin = "run"
         /\ pending = 1..Len(Round(tr, 1))

Apply(c) ==
    CASE c.op = "add"   -> Add(c.a) /\ ret'.ok = c.ok
      [] c.op = "score" -> UpdateScore(c.a, c.d) /\ ret'.ok = c.ok
      [] c.op = "time"  -> UpdateTime(c.a) /\ ret'.ok = c.ok
      [] c.op = "get"   -> Get(c.min, c.max) /\ ret'.peers = SetOf(c.peers)
      [] c.op = "save"  -> Save /\ c.ok

LinCall == /\ fin = "run"
           \* a call issued by a caller after an earlier call of its own returned comes after that call
           /\ \E i \in pending : /\ (Round(tr, rd)[i].after = 0 \/ Round(tr, rd)[i].after \notin pending)
                                  /\ Apply(Round(tr, rd)[i]) /\ pending' = pending \ {i}
           /\ UNCHANGED <<tr, rd, fin>>

NextRound == /\ fin = "run" /\ pending = {} /\ rd < Len(Traces[tr].rounds)
             /\ rd' = rd + 1 /\ pending' = 1..Len(Round(tr, rd + 1))
             /\ UNCHANGED <<vars, tr, fin>>

FinalBook == {[a |-> order[i], s |-> score[order[i]], t |-> touched[order[i]]] : i \in 1..Len(order)}
\* what the storage holds is what the last Save of the chosen order wrote (Save calls ran concurrently with the
\* other calls, on a storage whose writes take a while)
StoredBook == {file[i] : i \in 1..Len(file)}
Finish == /\ fin = "run" /\ pending = {} /\ rd = Len(Traces[tr].rounds)
          /\ IF FinalBook = SetOf(Traces[tr].final) /\ (~Traces[tr].saved \/ StoredBook = SetOf(Traces[tr].loaded))
             THEN PrintT(<<"LINOK", tr>>)
             ELSE PrintT(<<"LINCOUNT", tr, ToJson([spec |-> FinalBook, got |-> Traces[tr].final, stored |-> StoredBook,
                                                   loaded |-> Traces[tr].loaded])>>)
          /\ fin' = "ok"
          /\ UNCHANGED <<vars, tr, rd, pending>>

LNext == LinCall \/ NextRound \/ Finish
LSpec == LInit /\ [][LNext]_lvars
=============================================================================
