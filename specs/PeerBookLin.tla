---------------------------- MODULE PeerBookLin ----------------------------
(* C20, code -> spec: concurrent callers of the real peer address book.  The  *)
(* calls of one round ran concurrently between two barriers; TLC searches an  *)
(* order in which every recorded reply is the one PeerBook.tla dictates and   *)
(* the final book equals the recorded one.                                    *)
EXTENDS PeerBook, Json

VARIABLES tr, rd, pending, fin
lvars == <<vars, tr, rd, pending, fin>>

Traces == ndJsonDeserialize("trace.ndjson")
Round(t, r) == Traces[t].rounds[r]
SetOf(seq) == {seq[i] : i \in 1..Len(seq)}

LInit == /\ Init /\ tr \in 1..Len(Traces) /\ rd = 1 /\ fin = "run"
         /\ pending = 1..Len(Round(tr, 1))

Apply(c) ==
    CASE c.op = "add"   -> Add(c.a) /\ ret'.ok = c.ok
      [] c.op = "score" -> UpdateScore(c.a, c.d) /\ ret'.ok = c.ok
      [] c.op = "time"  -> UpdateTime(c.a) /\ ret'.ok = c.ok
      [] c.op = "get"   -> Get(c.min, c.max) /\ ret'.peers = SetOf(c.peers)

LinCall == /\ fin = "run"
           /\ \E i \in pending : Apply(Round(tr, rd)[i]) /\ pending' = pending \ {i}
           /\ UNCHANGED <<tr, rd, fin>>

NextRound == /\ fin = "run" /\ pending = {} /\ rd < Len(Traces[tr].rounds)
             /\ rd' = rd + 1 /\ pending' = 1..Len(Round(tr, rd + 1))
             /\ UNCHANGED <<vars, tr, fin>>

FinalBook == {[a |-> order[i], s |-> score[order[i]], t |-> touched[order[i]]] : i \in 1..Len(order)}
Finish == /\ fin = "run" /\ pending = {} /\ rd = Len(Traces[tr].rounds)
          /\ IF FinalBook = SetOf(Traces[tr].final) THEN PrintT(<<"LINOK", tr>>)
             ELSE PrintT(<<"LINCOUNT", tr, ToJson([spec |-> FinalBook, got |-> Traces[tr].final])>>)
          /\ fin' = "ok"
          /\ UNCHANGED <<vars, tr, rd, pending>>

LNext == LinCall \/ NextRound \/ Finish
LSpec == LInit /\ [][LNext]_lvars
=============================================================================
