------------------------------ MODULE HeaderChain ------------------------------
(***************************************************************************)
(* Reference model of headers.Repository (tokenized/bitcoin_reader) as a   *)
(* block tree.  No branches, files or offsets: the state is what a user of *)
(* the repository can observe, and each public operation is one action.    *)
(*                                                                         *)
(*   Submit(b)   ProcessHeader                                             *)
(*   Clean       Clean (consolidate, save main chain, prune memory)        *)
(*   Save/Load   Save, then Load into a fresh Repository on the same store *)
(*   LoadLegacy  Load on a store holding only version-0 files (migration)  *)
(*   Mark/Unmark MarkHeaderInvalid / MarkHeaderNotInvalid                  *)
(*   Subscribe   GetNewHeadersAvailableChannel                             *)
(*                                                                         *)
(* The pool of headers that can ever be offered (a tree rooted at genesis, *)
(* block 0) is chosen nondeterministically in Init, so TLC explores every  *)
(* tree shape over N blocks and every work assignment.                     *)
(***************************************************************************)
EXTENDS Integers, Sequences, FiniteSets, TLC

CONSTANTS N,          \* pool blocks 1..N ; 0 is genesis
          Works,      \* per-block work weights
          MaxDepth,   \* Config.MaxBranchDepth (in blocks)
          P,          \* prune depth used by Clean / Load (in blocks)
          MaxSubs,    \* max subscribers
          AutoEvery   \* ProcessHeader runs the maintenance operation by itself when the header it accepted is the
                      \* new tip and its height is a multiple of 10000; in blocks: every AutoEvery heights (0 = never,
                      \* the case whenever the replay's chains stay below 10000 headers)

Blocks == 1..N
AllB   == 0..N

VARIABLES parent, work,      \* pool shape, fixed at Init
          acc,               \* accepted blocks (contains 0)
          ever,              \* every block ever accepted
          tip,               \* reported tip
          invalid,           \* marked invalid
          subs,              \* per subscriber: the chain it reconstructs from what it was sent
                             \* (bounded by N), or <<-1>> if a header could not be attached
          floorB,            \* best-chain blocks with Height < floorB may have left memory
          unsure,            \* side blocks whose presence in memory is not promised any more
          disk,              \* abstract snapshot of last Save ([has |-> FALSE] if none)
          last               \* [op, b, verdict, delta] of the last operation (output only)
vars == <<parent, work, acc, ever, tip, invalid, subs, floorB, unsure, disk, last>>

RECURSIVE Height(_), CumWork(_), Anc(_), PathDown(_, _)
Height(b)  == IF b = 0 THEN 0 ELSE 1 + Height(parent[b])
CumWork(b) == IF b = 0 THEN 0 ELSE work[b] + CumWork(parent[b])
Anc(b)     == IF b = 0 THEN {0} ELSE {b} \cup Anc(parent[b])
PathDown(b, a) == IF b = a THEN <<>> ELSE Append(PathDown(parent[b], a), b)
ChainOf(b) == <<0>> \o PathDown(b, 0)
Desc(b)    == {c \in Blocks : b \in Anc(c)}                 \* descendants-or-self within pool
MaxOf(S, F(_)) == CHOOSE x \in S : \A y \in S : F(y) <= F(x)
Fork(a, b) == MaxOf(Anc(a) \cap Anc(b), Height)
MaxWorkTips(S) == {b \in S : \A c \in S : CumWork(c) <= CumWork(b)}
Children(S, p) == {c \in S \ {0} : parent[c] = p}
Max2(a, b) == IF a > b THEN a ELSE b
MinSet(S) == CHOOSE x \in S : \A y \in S : x <= y

\* A block is safely in memory (the properties promise it):
SafeHeld(x) == /\ x \in acc /\ x \notin unsure
               /\ (x \in Anc(tip) => Height(x) >= floorB)

Init == /\ parent \in {f \in [Blocks -> AllB] : \A b \in Blocks : f[b] < b}
        /\ work \in [Blocks -> Works]
        /\ acc = {0} /\ ever = {0} /\ tip = 0 /\ invalid = {} /\ subs = <<>>
        /\ floorB = 0 /\ unsure = {}
        /\ disk = [has |-> FALSE]
        /\ last = [op |-> "init", b |-> 0, verdict |-> "ok", delta |-> <<>>]

RECURSIVE Apply(_, _)
\* what a subscriber does with a stream: attach each announced header to its parent, discarding
\* what was above it
Apply(s, chain) == IF s = <<>> THEN chain
                   ELSE LET b == Head(s)
                            idx == {k \in 1..Len(chain) : chain[k] = parent[b]}
                        IN IF idx = {} THEN <<-1>>   \* cannot attach: stream is broken
                           ELSE Apply(Tail(s), Append(SubSeq(chain, 1, CHOOSE k \in idx : TRUE), b))
Announce(ss, path) == [i \in 1..Len(ss) |-> Apply(path, ss[i])]

Refuse(b, v) == /\ last' = [op |-> "submit", b |-> b, verdict |-> v, delta |-> <<>>]
                /\ UNCHANGED <<parent, work, acc, ever, tip, invalid, subs, floorB, unsure, disk>>

\* The stream is specified operationally, as the code intends it: nothing for growth of a side
\* branch, otherwise everything on the new best chain above the fork point with the previous tip.
Delta(oldTip, newTip) == PathDown(newTip, Fork(oldTip, newTip))

\* Clean keeps in memory what lies above the lowest fork point of the side branches it holds.  Side blocks that
\* a Load may have dropped (unsure) do not count: the promise is the weaker one.
FloorAfterClean(accS, t) ==
    LET side == {d \in accS \ {0} : d \notin Anc(t)} \ unsure
        cands == {Height(t) - P} \cup {Height(Fork(t, c)) : c \in side}
    IN Max2(floorB, MinSet(cands))
\* Clean, the automatic clean and the invalid marks write to the store as well: what is stored is then no
\* longer the image of one Save, and a Load of it is only promised the crash relation (C12)
Stale(d) == IF d.has THEN [d EXCEPT !.fresh = FALSE] ELSE d
\* the automatic maintenance inside ProcessHeader
AutoCleans(b, t) == AutoEvery > 0 /\ t = b /\ Height(b) % AutoEvery = 0

\* The verdict the rules dictate for submitting pool block b
Submit(b) ==
  IF parent[b] \notin acc THEN Refuse(b, "unknown")
  ELSE IF b \in acc THEN Refuse(b, "known")
  ELSE IF b \in invalid THEN Refuse(b, "invalid")
  ELSE IF /\ Children(acc, parent[b]) # {}
          /\ Height(tip) - Height(parent[b]) > MaxDepth
       THEN Refuse(b, "toodeep")
  ELSE /\ acc' = acc \cup {b} /\ ever' = ever \cup {b}
       /\ \E t \in MaxWorkTips(acc') :
             /\ tip' = t
             /\ subs' = Announce(subs, Delta(tip, t))
             /\ last' = [op |-> "submit", b |-> b, verdict |-> "ok", delta |-> Delta(tip, t)]
             /\ floorB' = IF AutoCleans(b, t) THEN FloorAfterClean(acc', t) ELSE floorB
             /\ disk' = IF AutoCleans(b, t) THEN Stale(disk) ELSE disk
       /\ UNCHANGED <<parent, work, invalid, unsure>>

\* Variant used for code->spec validation: on a tie the repository may report either tip (C01 only
\* asks for *a* tip of maximal work); which one is read from the trace.
SubmitAnyTie(b, t) ==
  /\ parent[b] \in acc /\ b \notin acc /\ b \notin invalid
  /\ ~(Children(acc, parent[b]) # {} /\ Height(tip) - Height(parent[b]) > MaxDepth)
  /\ acc' = acc \cup {b} /\ ever' = ever \cup {b}
  /\ t \in MaxWorkTips(acc')
  /\ tip' = t
  /\ subs' = Announce(subs, Delta(tip, t))
  /\ last' = [op |-> "submit", b |-> b, verdict |-> "ok", delta |-> Delta(tip, t)]
  /\ floorB' = IF AutoCleans(b, t) THEN FloorAfterClean(acc', t) ELSE floorB
  /\ disk' = IF AutoCleans(b, t) THEN Stale(disk) ELSE disk
  /\ UNCHANGED <<parent, work, invalid, unsure>>

\* generation-side guard: only submissions whose outcome the properties dictate
Dictated(b) == \/ parent[b] \notin ever                       \* true orphan
               \/ (parent[b] \in acc /\ SafeHeld(parent[b]))
NoTie == Cardinality(MaxWorkTips(acc)) = 1

SideBlocks == {d \in acc \ {0} : d \notin Anc(tip)}
NewFloor == FloorAfterClean(acc, tip)

Clean == /\ floorB' = NewFloor
         /\ last' = [op |-> "clean", b |-> 0, verdict |-> "ok", delta |-> <<>>]
         /\ disk' = Stale(disk)
         /\ UNCHANGED <<parent, work, acc, ever, tip, invalid, subs, unsure>>

Save == /\ disk' = [has |-> TRUE, acc |-> acc, tip |-> tip, invalid |-> invalid,
                    unsure |-> unsure, floorB |-> floorB, fresh |-> TRUE]
        /\ last' = [op |-> "save", b |-> 0, verdict |-> "ok", delta |-> <<>>]
        /\ UNCHANGED <<parent, work, acc, ever, tip, invalid, subs, floorB, unsure>>

\* Load from the last Save and continue (on a fresh repository as after a restart, or on the object in
\* use): whatever was accepted since the Save is gone and can be submitted again.  "Same repository" is
\* promised while the store is the image of that Save; after a Clean or a mark it is the crash relation
\* (C12, Reload in the Gen module).
Load == /\ disk.has /\ disk.fresh
        /\ acc' = disk.acc /\ tip' = disk.tip /\ invalid' = disk.invalid
        /\ LET t == disk.tip
           IN /\ floorB' = Max2(disk.floorB, Height(t) - P)
              \* side blocks forking deeper below the tip than new forks are accepted (MaxDepth) or than
              \* Load retains (P) need not survive
              /\ unsure' = disk.unsure \cup
                     {x \in disk.acc : x \notin Anc(t) /\
                                         Height(t) - Height(Fork(t, x)) > (IF MaxDepth < P THEN MaxDepth ELSE P)}
        /\ subs' = <<>>
        /\ last' = [op |-> "load", b |-> 0, verdict |-> "ok", delta |-> <<>>]
        /\ UNCHANGED <<parent, work, ever, disk>>

\* Load on a store written before branches existed: version-0 main-chain files holding the chain to block
\* b and nothing else (b = 0: an empty store, the repository starts from genesis).  The code migrates the
\* files and keeps the whole chain in memory.  Only possible as the first operation.
\* The store may also hold a list of invalid-marked hashes (it is a file of its own, written by every mark):
\* I, none of them on the stored chain.
LegacyInvalid(b) == {{}} \cup {{x} : x \in Blocks \ Anc(b)}
LoadLegacy(b, I) == /\ last.op = "init"
                    /\ acc' = Anc(b) /\ ever' = Anc(b) /\ tip' = b
                    /\ invalid' = I
                    /\ last' = [op |-> "legacy", b |-> b, verdict |-> "ok", delta |-> <<>>]
                    /\ UNCHANGED <<parent, work, subs, floorB, unsure, disk>>

Subscribe == /\ Len(subs) < MaxSubs
             /\ subs' = Append(subs, ChainOf(tip))
             /\ last' = [op |-> "subscribe", b |-> 0, verdict |-> "ok", delta |-> <<>>]
             /\ UNCHANGED <<parent, work, acc, ever, tip, invalid, floorB, unsure, disk>>

\* MarkHeaderInvalid does not notify subscribers (there is a TODO in the code) and C07 quantifies
\* over submissions only: subscribers are dropped by a Mark.
Mark(b) == /\ b \notin invalid
           /\ invalid' = invalid \cup {b}
           /\ acc' = IF b \in acc THEN acc \ Desc(b) ELSE acc
           /\ \E t \in MaxWorkTips(acc') :
                 /\ tip' = t
           /\ subs' = <<>>
           /\ unsure' = unsure \ Desc(b)
           /\ last' = [op |-> "mark", b |-> b, verdict |-> "ok", delta |-> <<>>]
           /\ disk' = Stale(disk)
           /\ UNCHANGED <<parent, work, ever, floorB>>

Unmark(b) == /\ b \in invalid
             /\ invalid' = invalid \ {b}
             /\ last' = [op |-> "unmark", b |-> b, verdict |-> "ok", delta |-> <<>>]
             /\ disk' = Stale(disk)
             /\ UNCHANGED <<parent, work, acc, ever, tip, subs, floorB, unsure>>

Next == \/ \E b \in Blocks : Submit(b)
        \/ Clean \/ Save \/ Load \/ Subscribe \/ (\E b \in AllB : \E I \in LegacyInvalid(b) : LoadLegacy(b, I))
        \/ \E b \in Blocks : Mark(b) \/ Unmark(b)
Spec == Init /\ [][Next]_vars
NextCore == (\E b \in Blocks : Submit(b)) \/ Subscribe
SpecCore == Init /\ [][NextCore]_vars
NextMaint == (\E b \in Blocks : Submit(b)) \/ Clean \/ Save \/ Load \/ (\E b \in AllB : \E I \in LegacyInvalid(b) : LoadLegacy(b, I))
SpecMaint == Init /\ [][NextMaint]_vars
NextMark == (\E b \in Blocks : Submit(b) \/ Mark(b) \/ Unmark(b)) \/ Save \/ Load
SpecMark == Init /\ [][NextMark]_vars

\* ------------------------------------------------------------------ queries (pure)
\* C09: what a lookup of pool block b must report while it is retrievable
Lookup(b) == [known |-> b \in acc, height |-> Height(b), best |-> b \in Anc(tip)]

\* C19: locators.  A locator is a sequence of blocks.  max >= 1.
BestChainSet == Anc(tip)
SideBases == {c \in acc \ {0} : parent[c] \in Anc(tip) /\ c \notin Anc(tip)} \cup
             {c \in acc \ {0} : c \notin Anc(tip)}      \* any tracked side-branch header
NoDup(s) == \A i, j \in 1..Len(s) : i # j => s[i] # s[j]
BestPart(s) == SelectSeq(s, LAMBDA x : x \in BestChainSet)
Descending(s) == \A i \in 1..(Len(s) - 1) : Height(s[i]) > Height(s[i + 1])
LocatorWellFormed(loc, max) ==
    /\ \A i \in 1..Len(loc) : loc[i] \in BestChainSet \cup SideBases
    /\ NoDup(loc)
    /\ LET bp == BestPart(loc)
       IN /\ Len(bp) >= 1 /\ Len(bp) <= max
          /\ Descending(bp)
          /\ bp[1] = (IF tip = 0 THEN 0 ELSE parent[tip])
\* A peer whose own best chain ends at pool block c answers with the headers following the first
\* locator entry that is on its chain.
PeerFirst(c, loc) == LET hits == {i \in 1..Len(loc) : loc[i] \in Anc(c)}
                     IN IF hits = {} THEN -1 ELSE loc[MinSet(hits)]
\* ... and that entry must be one we still hold in memory, so the reply connects.
PeerContinues(loc) == \A c \in AllB : PeerFirst(c, loc) # -1 => SafeHeld(PeerFirst(c, loc)) \/ PeerFirst(c, loc) \in acc

\* A reference locator (the tip's ancestors, newest first, starting at the tip's parent): shows
\* that the constraints are satisfiable in every reachable state.
RECURSIVE Down(_, _)
Down(b, k) == IF k = 0 THEN <<>> ELSE IF b = 0 THEN <<0>> ELSE <<b>> \o Down(parent[b], k - 1)
RefLocator(max) == IF tip = 0 THEN <<0>> ELSE Down(parent[tip], max)
RefLocatorOK == \A max \in 1..3 : LocatorWellFormed(RefLocator(max), max) /\ PeerContinues(RefLocator(max))

\* ------------------------------------------------------------------ properties
TypeOK == /\ acc \subseteq AllB /\ 0 \in acc /\ tip \in acc
          /\ \A b \in acc \ {0} : parent[b] \in acc
          /\ acc \subseteq ever
\* C01
TipMaxWork == tip \in MaxWorkTips(acc)
\* C07: the stream reconstructs the reported chain for every subscriber
StreamReconstructs == \A i \in 1..Len(subs) : subs[i] = ChainOf(tip)
\* C07: only headers of the new best chain are announced
OnlyBestAnnounced == \A i \in 1..Len(last.delta) : last.delta[i] \in Anc(tip)
\* C08
ObsVars == <<acc, tip, invalid, subs, floorB, unsure, disk>>
RefusalChangesNothing == [][(last'.op = "submit" /\ last'.verdict # "ok") => UNCHANGED ObsVars]_vars
\* C10
CleanChangesNothing == [][last'.op = "clean" => UNCHANGED <<acc, tip, invalid, subs>>]_vars
\* C11
SaveLoadSame == [][last'.op = "load" => (acc' = disk.acc /\ tip' = disk.tip /\ invalid' = disk.invalid)]_vars
\* C17
MarkedExcluded == \A b \in invalid : Desc(b) \cap acc = {}
FallsBack == [][last'.op = "mark" => tip' \in MaxWorkTips(acc \ Desc(last'.b))]_vars
\* the tip never moves to less work by a submission
NoWorkLoss == [][last'.op = "submit" => CumWork(tip') >= CumWork(tip)]_vars
================================================================================
