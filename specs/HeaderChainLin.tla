---------------------------- MODULE HeaderChainLin ----------------------------
(***************************************************************************)
(* Code -> spec for concurrent callers of headers.Repository (C01, C07 over *)
(* schedules).  Each line of trace.ndjson is one run of the harness `hdrc`: *)
(* the pool (parent, work), every ProcessHeader / Clean call of every peer  *)
(* goroutine with the interval [s, e] of a global counter in which it ran   *)
(* and the verdict it got, and the final observation (reported tip, the     *)
(* blocks reported known, the chain a lagging subscriber reconstructed).    *)
(*                                                                         *)
(* TLC searches for a linearization: an order of the calls that respects    *)
(* the recorded intervals (a call that ended before another started comes   *)
(* first) in which every call is the HeaderChain action with the recorded   *)
(* verdict, and after which the specification's state is the recorded       *)
(* final observation.  LINOK is printed for a trace that has one.           *)
(***************************************************************************)
EXTENDS HeaderChain, Json

Traces == ndJsonDeserialize("trace.ndjson")

VARIABLES tr, done
lvars == <<vars, tr, done>>

Calls == Traces[tr].calls
NCalls == Len(Calls)
Ready(i) == /\ i \notin done
            /\ \A j \in 1..NCalls : Calls[j].e < Calls[i].s => j \in done

LInit == /\ tr \in 1..Len(Traces)
         /\ done = {}
         /\ parent = [b \in Blocks |-> Traces[tr].parent[b]]
         /\ work = [b \in Blocks |-> Traces[tr].work[b]]
         /\ acc = {0} /\ ever = {0} /\ tip = 0 /\ invalid = {}
         /\ subs = << <<0>> >>                     \* the subscriber registers before the first call
         /\ floorB = 0 /\ unsure = {}
         /\ disk = [has |-> FALSE]
         /\ last = [op |-> "init", b |-> 0, verdict |-> "ok", delta |-> <<>>]

Call(i) == LET c == Calls[i] IN
           /\ Ready(i)
           /\ done' = done \cup {i} /\ tr' = tr
           \* a header that is already known is answered like an accepted one (nil)
           /\ \/ /\ c.op = "submit" /\ Submit(c.b)
                 /\ (last'.verdict = c.verdict \/ (c.verdict = "ok" /\ last'.verdict = "known"))
              \/ c.op = "clean" /\ c.verdict = "ok" /\ Clean

LNext == \E i \in 1..NCalls : Call(i)
LSpec == LInit /\ [][LNext]_lvars

SeqOf(s) == [i \in 1..Len(s) |-> s[i]]
Fin == Traces[tr].final
FinalMatches == /\ tip = Fin.tip
                /\ ChainOf(tip) = SeqOf(Fin.chain)
                /\ acc \ {0} = {Fin.known[i] : i \in 1..Len(Fin.known)}
                /\ Anc(tip) \ {0} = {Fin.best[i] : i \in 1..Len(Fin.best)}
                \* <<-2>>: the subscriber lags behind on purpose; the harness compares what it holds with the
                \* reported chain after the last round, when it has caught up (streamOK)
                /\ (Fin.recon = <<-2>> \/ subs[1] = SeqOf(Fin.recon))
                /\ Fin.workOK /\ Fin.linkOK /\ Fin.streamOK /\ Fin.problem = ""

\* without the conjuncts about the subscriber's stream (those belong to C07, the rest to C01)
FinalMatchesNoStream == /\ tip = Fin.tip
                        /\ ChainOf(tip) = SeqOf(Fin.chain)
                        /\ acc \ {0} = {Fin.known[i] : i \in 1..Len(Fin.known)}
                        /\ Anc(tip) \ {0} = {Fin.best[i] : i \in 1..Len(Fin.best)}
                        /\ Fin.workOK /\ Fin.linkOK
                        /\ (Fin.problem = "" \/ ~Fin.streamOK)

Emit == /\ (done # 1..NCalls \/ ~FinalMatches \/ PrintT(<<"LINOK", tr>>))
        /\ (done # 1..NCalls \/ ~FinalMatchesNoStream \/ PrintT(<<"LINOKNS", tr>>))
=============================================================================
