--------------------------- MODULE PeerSessionGen ---------------------------
(* Session generator for spec -> code replay: sequences of inbound message     *)
(* classes with, per message, what the node must send, which sinks it must     *)
(* call and the state it must be in.  The scripted peer waits for the          *)
(* handshake goroutine to go quiet after version / verack, so here a queued    *)
(* message is consumed (Hs) before the next inbound message is chosen; the     *)
(* asynchronous interleavings are covered by the exhaustive configuration of   *)
(* PeerSession itself.                                                         *)
EXTENDS PeerSession, Json
CONSTANTS Depth,      \* inbound messages per session
          Alphabet,   \* classes chosen freely
          Prefix      \* forced first messages (a sequence), e.g. the handshake that makes the node ready
VARIABLE hist
gvars == <<vars, hist>>

State == [ready |-> ready, verified |-> verified, closed |-> closed \/ desync, hsComplete |-> hsComplete, deaf |-> deaf]
Entry(m) == [msg |-> m, out |-> out, sinks |-> sinks, alt |-> alt, st |-> State]

HsPending == ~hs.done /\ ~closed /\ Len(q) > 0
GInit == Init /\ hist = <<>>
GRecv == /\ ~HsPending /\ Len(hist) < Depth
         /\ \E m \in (IF Len(hist) < Len(Prefix) THEN {Prefix[Len(hist) + 1]} ELSE Alphabet) :
               Recv(m) /\ hist' = Append(hist, Entry(m)')
GHs == /\ HsPending /\ Hs
       /\ LET n == Len(hist)
          IN hist' = [hist EXCEPT ![n] = [@ EXCEPT !.out = @ \cup out', !.st = State']]
GNext == GRecv \/ GHs
GSpec == GInit /\ [][GNext]_gvars
Over == ~Alive \/ Len(hist) >= Depth
Emit == ~(Over /\ ~HsPending /\ Len(hist) > 0) \/
        PrintT(<<"BEH", ToJson([verifyonly |-> VerifyOnly, txmgr |-> HasTxMgr, steps |-> hist])>>)
=============================================================================
