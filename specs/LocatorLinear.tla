---------------------------- MODULE LocatorLinear ----------------------------
(* C19 on the real mainnet chain around the configured split heights.  The     *)
(* repository follows the real chain (fixture headers) with no side branches;  *)
(* each record is one locator: the tip height, the requested maximum and the   *)
(* entries as true heights on our chain (a hash that is a configured split     *)
(* fork point below our history is marked "split" with its configured height); *)
(* held is the lowest height whose header the repository has in memory.         *)
EXTENDS Integers, Sequences, FiniteSets, TLC, Json
VARIABLE l
Trace == ndJsonDeserialize("trace.ndjson")

Heights(r) == [i \in 1..Len(r.entries) |-> r.entries[i].h]
ChainPart(r) == SelectSeq(r.entries, LAMBDA e : e.kind = "chain")
Verdict(r) ==
    LET hs == Heights(r)
    IN IF Len(hs) = 0 THEN (IF r.tip - 1 < r.held THEN "ok" ELSE "empty locator")
       ELSE IF \E i \in 1..Len(hs) : r.entries[i].kind = "unknown" THEN "hash that is neither on the best chain nor a split fork point"
       ELSE IF \E i, j \in 1..Len(hs) : i # j /\ hs[i] = hs[j] THEN "duplicate hash"
       \* nothing below the tip is held (the repository was started from a mocked latest header): no best-chain
       \* hash can be offered - in particular not the tip itself, a same-chain peer would answer from the header
       \* after it - only the configured split fork points
       ELSE IF r.tip - 1 < r.held /\ Len(ChainPart(r)) > 0 THEN "best-chain hash offered although nothing below the tip is held"
       ELSE IF r.tip - 1 < r.held THEN "ok"
       ELSE IF r.tip > 0 /\ hs[1] # r.tip - 1 THEN "does not begin with the tip's parent"
       ELSE IF \E i \in 1..(Len(hs) - 1) : hs[i] <= hs[i + 1] THEN "hashes not newest first"
       \* the split fork points may come on top of the requested maximum
       ELSE IF Len(ChainPart(r)) > r.max + r.nsplits THEN "more best-chain hashes than the requested maximum"
       ELSE "ok"

Init == l = 1
Next == /\ l <= Len(Trace) /\ l' = l + 1
        /\ LET v == Verdict(Trace[l]) IN v = "ok" \/ PrintT(<<"LOCBAD", l, v, ToString(Trace[l].tip)>>)
Spec == Init /\ [][Next]_l
Accepted == TLCGet("stats").diameter - 1 = Len(Trace)
==============================================================================
