--------------------------------- MODULE Daa ---------------------------------
(***************************************************************************)
(* The network's 144-block difficulty adjustment rule (C02) as a case      *)
(* analysis.  For a header at height h the two endpoints are the "suitable"*)
(* blocks of the windows (h-3,h-2,h-1) and (h-147,h-146,h-145): the median *)
(* by timestamp found with the network's three-compare swap network (ties  *)
(* keep block order), NOT a generic sort.  The time span is a SIGNED        *)
(* difference clamped to [72,288] blocks' worth.  The required target is    *)
(* floor(2^256 / (W * 600 / span)) capped at the proof-of-work limit; that  *)
(* 256-bit arithmetic is outside TLC (32-bit integers) and is done by the   *)
(* harness from the endpoints and span this spec selects.                   *)
(*                                                                         *)
(* TLC enumerates every timestamp pattern of the six endpoint blocks over a *)
(* small domain (ties in every position, decreasing, far future, negative   *)
(* span) and exports, per case, which block is each endpoint and the        *)
(* clamped span.                                                           *)
(***************************************************************************)
EXTENDS Integers, Sequences, FiniteSets, TLC, Json
CONSTANT Times        \* timestamp domain (seconds, relative)

Spacing == 600
MinSpan == 72 * Spacing
MaxSpan == 288 * Spacing

\* the swap network of the network's GetSuitableBlock on <<oldest, middle, newest>>: positions 1..3
\* b is a sequence of block positions, t their timestamps
Swap(s, i, j) == [s EXCEPT ![i] = s[j], ![j] = s[i]]
Suitable(t) ==
    LET b0 == <<1, 2, 3>>
        b1 == IF t[b0[1]] > t[b0[3]] THEN Swap(b0, 1, 3) ELSE b0
        b2 == IF t[b1[1]] > t[b1[2]] THEN Swap(b1, 1, 2) ELSE b1
        b3 == IF t[b2[2]] > t[b2[3]] THEN Swap(b2, 2, 3) ELSE b2
    IN b3[2]

Clamp(span) == IF span > MaxSpan THEN MaxSpan ELSE IF span < MinSpan THEN MinSpan ELSE span

VARIABLES first, last, done     \* timestamps of (h-147,h-146,h-145) and of (h-3,h-2,h-1)
vars == <<first, last, done>>

Init == /\ first \in [1..3 -> Times] /\ last \in [1..3 -> Times] /\ done = FALSE
Next == ~done /\ done' = TRUE /\ UNCHANGED <<first, last>>
Spec == Init /\ [][Next]_vars

FirstSel == Suitable(first)
LastSel == Suitable(last)
RawSpan == last[LastSel] - first[FirstSel]
Span == Clamp(RawSpan)

\* Windows that hold next to no work: every block carries one unit of work (a target near 2^256, possible for
\* headers from below the activation height, whose bits nobody checks).  The work between the endpoints is the
\* number of blocks between them, and the projected work W * 600 / span floors to a few units - or to zero, where
\* there is nothing to project and the required target is the cap (the proof-of-work limit).
BlocksBetween == 144 + LastSel - FirstSel
Projected1 == (BlocksBetween * Spacing) \div Span
LowWorkCapped == Projected1 = 0

\* sanity of the transcription: the selected block carries a median timestamp
IsMedian(t, k) == /\ Cardinality({i \in 1..3 : t[i] < t[k]}) <= 1
                  /\ Cardinality({i \in 1..3 : t[i] > t[k]}) <= 1
SelectsMedian == IsMedian(first, FirstSel) /\ IsMedian(last, LastSel)
SpanInRange == Span >= MinSpan /\ Span <= MaxSpan
\* one unit of work per block projects to 0, 1 or 2 units: all three occur in the domain
ProjectedSmall == Projected1 \in 0..2
\* the cases where a generic stable sort and an unsigned subtraction disagree with the rule exist in the domain
EmitCase == ~done \/ PrintT(<<"CASE", ToJson([first |-> first, last |-> last, firstSel |-> FirstSel, lastSel |-> LastSel,
                                                 raw |-> RawSpan, span |-> Span, proj1 |-> Projected1])>>)
==============================================================================
