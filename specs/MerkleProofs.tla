----------------------------- MODULE MerkleProofs -----------------------------
(***************************************************************************)
(* Merkle proofs as terms (C18, and the proofs of C04).  The tree over the *)
(* leaves 1..n is the Bitcoin tree (odd levels duplicate their last node); *)
(* a proof is (leaf, index, path); verification folds the path according  *)
(* to the bits of the index and compares with the root.  TLC enumerates    *)
(* every shape, position and single-element corruption and records whether *)
(* the corrupted proof still recomputes the root - only then may a         *)
(* verification succeed (SHA-256 assumed collision free).                  *)
(***************************************************************************)
EXTENDS Integers, Sequences, FiniteSets, TLC, Json
CONSTANT MaxN

RECURSIVE PairUp(_), Root(_), PathOf(_, _), Fold(_, _, _)
PairUp(s) == IF Len(s) = 0 THEN <<>>
             ELSE IF Len(s) = 1 THEN << <<s[1], s[1]>> >>
             ELSE << <<s[1], s[2]>> >> \o PairUp(SubSeq(s, 3, Len(s)))
Root(s) == IF Len(s) = 1 THEN s[1] ELSE Root(PairUp(s))
Leaves(n) == [i \in 1..n |-> <<i>>]
\* sibling terms from the leaf level upwards for the node at 0-based position idx of level s
PathOf(s, idx) == IF Len(s) = 1 THEN <<>>
                  ELSE LET sib == IF idx % 2 = 0 THEN (IF idx + 2 <= Len(s) THEN s[idx + 2] ELSE s[idx + 1])
                                                 ELSE s[idx]
                       IN <<sib>> \o PathOf(PairUp(s), idx \div 2)
Fold(cur, idx, path) == IF path = <<>> THEN cur
                        ELSE Fold(IF idx % 2 = 0 THEN <<cur, Head(path)>> ELSE <<Head(path), cur>>, idx \div 2, Tail(path))

Foreign == <<99>>

VARIABLES n, pos, kind, at, done
vars == <<n, pos, kind, at, done>>

Depth(m) == Len(PathOf(Leaves(m), 0))
Init == /\ n \in 1..MaxN /\ pos \in 0..(n - 1)
        /\ kind \in {"none", "txid", "path", "index", "shorter", "longer"}
        /\ at \in 0..7
        /\ done = FALSE
        /\ (kind = "path" => at < Depth(n))
        /\ (kind = "index" => at # pos /\ at < 8)
        /\ (kind \in {"none", "txid", "shorter", "longer"} => at = 0)
        /\ (kind = "shorter" => Depth(n) > 0)

Path0 == PathOf(Leaves(n), pos)
Leaf == IF kind = "txid" THEN Foreign ELSE <<pos + 1>>
Index == IF kind = "index" THEN at ELSE pos
Path == CASE kind = "path" -> [Path0 EXCEPT ![at + 1] = Foreign]
          [] kind = "shorter" -> SubSeq(Path0, 1, Len(Path0) - 1)
          [] kind = "longer" -> Append(Path0, Foreign)
          [] OTHER -> Path0
Recomputes == Fold(Leaf, Index, Path) = Root(Leaves(n))

Next == ~done /\ done' = TRUE /\ UNCHANGED <<n, pos, kind, at>>
Spec == Init /\ [][Next]_vars

\* an uncorrupted proof always verifies; a corrupted txid, path node or length never does; an altered index
\* recomputes the root only where the tree duplicated a node (the two positions are indistinguishable)
ValidVerifies == kind = "none" => Recomputes
CorruptFails == kind \in {"txid", "path", "shorter", "longer"} => ~Recomputes
EmitCase == ~done \/ PrintT(<<"CASE", ToJson([n |-> n, pos |-> pos, kind |-> kind, at |-> at, ok |-> Recomputes])>>)
==============================================================================
