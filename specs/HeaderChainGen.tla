--------------------------- MODULE HeaderChainGen ---------------------------
(* Behaviour generator for spec -> code replay: HeaderChain plus a history     *)
(* variable carrying, for every step, the operation and the observation the    *)
(* specification expects after it.  Run with -simulate (deep, random) or BFS   *)
(* (bounded exhaustive); every behaviour of length Depth is printed as JSON.   *)
EXTENDS HeaderChain, Json
CONSTANTS Depth,      \* operations per behaviour
          Ops         \* enabled operation kinds
VARIABLE hist
gvars == <<vars, hist>>

Exp == [verdict |-> last.verdict, tip |-> tip, chain |-> ChainOf(tip), delta |-> last.delta,
        acc |-> acc, unsure |-> unsure, floorB |-> floorB, invalid |-> invalid,
        best |-> Anc(tip), nsubs |-> Len(subs), ever |-> ever,
        savedWork |-> IF disk.has THEN CumWork(disk.tip) ELSE 0]

Step(opname, b) == hist' = Append(hist, [op |-> opname, b |-> b, exp |-> Exp'])

GInit == Init /\ hist = <<>>
Ended == hist # <<>> /\ hist[Len(hist)].op = "reload"

\* Submissions whose outcome the properties dictate (see DESIGN.md 2.2)
Dict(b) == \/ parent[b] \notin acc
           \/ (SafeHeld(parent[b]) /\ (b \in acc => SafeHeld(b)))

\* Load not directly after Save: only the crash-style relation is promised (C12); terminal.
Reload == /\ disk.has /\ last.op # "save"
          /\ hist' = Append(hist, [op |-> "reload", b |-> 0, exp |-> Exp])
          /\ UNCHANGED vars

\* Marking is only generated for blocks that are safely held or not accepted.
MarkOK(b) == b \notin acc \/ SafeHeld(b)

GNext == /\ Len(hist) < Depth /\ ~Ended
         /\ \/ "submit" \in Ops /\ \E b \in Blocks : Dict(b) /\ Submit(b) /\ NoTie' /\ Step("submit", b)
            \/ "clean" \in Ops /\ last.op # "clean" /\ Clean /\ Step("clean", 0)
            \/ "save" \in Ops /\ last.op # "save" /\ Save /\ Step("save", 0)
            \/ "load" \in Ops /\ Load /\ Step("load", 0)
            \/ "reload" \in Ops /\ Reload
            \/ "subscribe" \in Ops /\ Subscribe /\ Step("subscribe", 0)
            \/ "mark" \in Ops /\ \E b \in Blocks : MarkOK(b) /\ Mark(b) /\ NoTie' /\ Step("mark", b)
            \/ "mark" \in Ops /\ \E b \in Blocks : Unmark(b) /\ Step("unmark", b)
GSpec == GInit /\ [][GNext]_gvars

Emit == (Len(hist) < Depth /\ ~Ended) \/
        PrintT(<<"BEH", ToJson([parent |-> parent, work |-> work, ops |-> hist])>>)
=============================================================================
