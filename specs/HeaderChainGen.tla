--------------------------- MODULE HeaderChainGen ---------------------------
(* Behaviour generator for spec -> code replay: HeaderChain plus a history     *)
(* variable carrying, for every step, the operation and the observation the    *)
(* specification expects after it.  Run with -simulate (deep, random) or BFS   *)
(* (bounded exhaustive); every behaviour of length Depth is printed as JSON.   *)
EXTENDS HeaderChain, Json
CONSTANTS Depth,      \* operations per behaviour
          Ops,        \* enabled operation kinds
          Script,     \* <<>> or a sequence of step kinds ("grow" = accepting submission, "submit", "clean",
                      \* "save", "load", "mark", "unmark", "subscribe", "any"): step i must be of kind Script[i].
                      \* With BFS this enumerates a scenario family exhaustively (all trees, all orders).
          Shape,      \* <<>> or the pool's parent function as a sequence: only that tree shape is generated (every
                      \* work assignment, every order) - used for shapes that random trees rarely take, like a fork of a fork
          Lean,       \* TRUE: at most one orphan and few duplicate candidates per state, so that random
                      \* simulation spends its steps on tree-shaping submissions
          Ties        \* TRUE: states with several tips of maximal work are generated too.  C01 asks for *a* tip of
                      \* maximal work, so the specification leaves the choice open; one behaviour is generated per
                      \* choice and the replay follows the one the implementation takes (the others stop, without
                      \* a verdict, at the step where the implementation chose another allowed tip: exp.maxtips)
VARIABLE hist
gvars == <<vars, hist>>

\* C08 names the possible answers but not an order among them: when a submission is refusable for several reasons
\* (marked invalid and a fork that is too deep, ...), any of them is the reference verdict
RefusalReasons(b) ==
    (IF parent[b] \notin acc THEN {"unknown"} ELSE {}) \cup
    (IF b \in acc THEN {"known"} ELSE {}) \cup
    (IF b \in invalid THEN {"invalid"} ELSE {}) \cup
    (IF /\ parent[b] \in acc /\ b \notin acc /\ Children(acc, parent[b]) # {}
        /\ Height(tip) - Height(parent[b]) > MaxDepth THEN {"toodeep"} ELSE {})
Exp == [alts |-> IF last.op = "submit" /\ last.verdict # "ok" THEN RefusalReasons(last.b) ELSE {},
        verdict |-> last.verdict, tip |-> tip, chain |-> ChainOf(tip), delta |-> last.delta,
        acc |-> acc, unsure |-> unsure, floorB |-> floorB, invalid |-> invalid,
        best |-> Anc(tip), nsubs |-> Len(subs), ever |-> ever, maxtips |-> MaxWorkTips(acc),
        savedWork |-> IF disk.has THEN CumWork(disk.tip) ELSE 0]

Step(opname, b) == hist' = Append(hist, [op |-> opname, b |-> b, exp |-> Exp'])

\* Init of HeaderChain with the tree shape fixed when Shape is given (the nondeterministic choice of the parent
\* function has N! values: it is not enumerated and filtered)
GInit == /\ IF Shape = <<>> THEN parent \in {f \in [Blocks -> AllB] : \A b \in Blocks : f[b] < b}
                           ELSE parent = [b \in Blocks |-> Shape[b]]
         /\ work \in [Blocks -> Works]
         /\ acc = {0} /\ ever = {0} /\ tip = 0 /\ invalid = {} /\ subs = <<>>
         /\ floorB = 0 /\ unsure = {}
         /\ disk = [has |-> FALSE]
         /\ last = [op |-> "init", b |-> 0, verdict |-> "ok", delta |-> <<>>]
         /\ hist = <<>>
Ended == hist # <<>> /\ hist[Len(hist)].op = "reload"

\* Submissions whose outcome the properties dictate (see DESIGN.md 2.2)
Dict(b) == \/ parent[b] \notin acc
           \/ (SafeHeld(parent[b]) /\ (b \in acc => SafeHeld(b)))

Orphans == {c \in Blocks : parent[c] \notin acc}
LeanOK(b) == \/ ~Lean
             \/ (parent[b] \in acc /\ b \notin acc)
             \/ (parent[b] \notin acc /\ b = MinSet(Orphans))
             \/ (b \in acc /\ (b = tip \/ (SideBlocks # {} /\ b = MinSet(SideBlocks))))

\* Load not directly after Save: only the crash-style relation is promised (C12); terminal.
Reload == /\ disk.has /\ last.op # "save"
          /\ hist' = Append(hist, [op |-> "reload", b |-> 0, exp |-> Exp])
          /\ UNCHANGED vars

\* Marking is only generated for blocks that are safely held or not accepted.
MarkOK(b) == b \notin acc \/ SafeHeld(b)

Kind(k) == \/ Script = <<>>
           \/ (Len(hist) < Len(Script) /\ Script[Len(hist) + 1] \in {k, "any"})
Grow(b) == parent[b] \in acc /\ b \notin acc
GNext == /\ Len(hist) < Depth /\ ~Ended
         /\ \/ "submit" \in Ops /\ \E b \in Blocks : /\ Kind("submit") \/ (Kind("grow") /\ Grow(b))
                                                     /\ Dict(b) /\ LeanOK(b) /\ Submit(b) /\ (Ties \/ NoTie') /\ Step("submit", b)
            \* an operation repeated with nothing in between is only worth a step when a script asks for it
            \/ "clean" \in Ops /\ Kind("clean") /\ (Script # <<>> \/ last.op # "clean") /\ Clean /\ Step("clean", 0)
            \/ "save" \in Ops /\ Kind("save") /\ (Script # <<>> \/ last.op # "save") /\ Save /\ Step("save", 0)
            \/ "load" \in Ops /\ Kind("load") /\ Load /\ Step("load", 0)
            \/ "legacy" \in Ops /\ Kind("legacy") /\ \E b \in AllB : \E I \in LegacyInvalid(b) : LoadLegacy(b, I) /\ Step("legacy", b)
            \/ "reload" \in Ops /\ Kind("reload") /\ Reload
            \/ "subscribe" \in Ops /\ Kind("subscribe") /\ Subscribe /\ Step("subscribe", 0)
            \/ "mark" \in Ops /\ Kind("mark") /\ \E b \in Blocks : MarkOK(b) /\ Mark(b) /\ (Ties \/ NoTie') /\ Step("mark", b)
            \/ "mark" \in Ops /\ Kind("unmark") /\ \E b \in Blocks : Unmark(b) /\ Step("unmark", b)
GSpec == GInit /\ [][GNext]_gvars

\* a scripted behaviour that cannot continue (no enabled step of the scripted kind) is emitted as it is
Emit == (Len(hist) < Depth /\ ~Ended /\ ENABLED GNext) \/ Len(hist) = 0 \/
        PrintT(<<"BEH", ToJson([parent |-> parent, work |-> work, ops |-> hist])>>)
=============================================================================
