------------------------------ MODULE HeaderStore ------------------------------
(***************************************************************************)
(* The two stores of the best chain and the order in which Save and Clean  *)
(* write them (C12).                                                        *)
(*                                                                         *)
(* headers.Repository keeps the best chain twice on storage:               *)
(*   hfile  the header files, indexed by height, holding all of history;    *)
(*   bfile  the file of the main branch, holding the part of the chain the  *)
(*          repository keeps in memory (from the prune offset up).          *)
(* Save rewrites the header files from the prune offset up first            *)
(* (saveMainBranch) and the branch file afterwards (saveBranches); Clean     *)
(* does the same and then prunes memory.  Load takes the chain from the      *)
(* branch file and the history below its offset from the header files.       *)
(* A reorganisation that reaches below the offset makes the repository       *)
(* reload the pruned headers, so the next Save rewrites from lower down.     *)
(*                                                                         *)
(* Each write is atomic; a crash can fall between any two.  CrashSound is    *)
(* C12's statement about the chain a Load would report from the storage as   *)
(* it is.  TLC shows that it holds in every state that a reorganisation at   *)
(* or below the stored offset has not touched (CrashSoundShallow), and that  *)
(* it fails otherwise (the counterexample to CrashSound is known finding     *)
(* F-C12-1: new header files below, the old branch file above).  "Below the  *)
(* stored offset" means below what a Load keeps of the stored branch: its    *)
(* last P headers.                                                           *)
(***************************************************************************)
EXTENDS Integers, Sequences, FiniteSets, TLC

CONSTANTS MaxLen,     \* chain length bound (heights 0..MaxLen)
          MaxId,      \* block ids 1..MaxId (0 is genesis)
          P           \* prune depth of Clean

VARIABLES chain,      \* the best chain in memory: chain[h+1] = block at height h
          off,        \* height from which the main branch is held in memory
          par,        \* par[b] = parent block of b (fixed when b is created)
          nextId,
          hfile,      \* header files: sequence of blocks by height
          bfile,      \* [has, off, blocks]: the stored main branch
          pc,         \* "idle" | "save1" | "clean1": a Save / Clean has written the header files only
          savedTip,   \* height of the tip at the last completed Save (work is monotone in height here)
          deep        \* a reorganisation reached below what a Load keeps of the stored branch, since that was written
vars == <<chain, off, par, nextId, hfile, bfile, pc, savedTip, deep>>

Tip == Len(chain) - 1
Max2(a, b) == IF a > b THEN a ELSE b
Min2(a, b) == IF a < b THEN a ELSE b

Init == /\ chain = <<0>> /\ off = 0 /\ par = [b \in 0..MaxId |-> 0] /\ nextId = 1
        /\ hfile = <<0>> /\ bfile = [has |-> FALSE, off |-> 0, blocks |-> <<>>]
        /\ pc = "idle" /\ savedTip = 0 /\ deep = FALSE

\* ---------------------------------------------------------------- the chain changes
Extend == /\ pc = "idle" /\ Tip < MaxLen /\ nextId <= MaxId
          /\ chain' = Append(chain, nextId)
          /\ par' = [par EXCEPT ![nextId] = chain[Len(chain)]]
          /\ nextId' = nextId + 1
          /\ UNCHANGED <<off, hfile, bfile, pc, savedTip, deep>>

\* blocks at heights h..Tip are replaced by a heavier fork of the same length plus one
Reorg(h) == /\ pc = "idle" /\ h \in 1..Tip /\ Tip < MaxLen /\ nextId + (Tip - h + 1) <= MaxId
            /\ LET n == Tip - h + 2          \* new blocks
                   ids == [i \in 1..n |-> nextId + i - 1]
               IN /\ chain' = SubSeq(chain, 1, h) \o ids
                  /\ par' = [b \in 0..MaxId |->
                               IF b = nextId THEN chain[h]
                               ELSE IF b > nextId /\ b < nextId + n THEN b - 1 ELSE par[b]]
                  /\ nextId' = nextId + n
            \* consolidation reloads the pruned part of the chain it needs
            /\ off' = Min2(off, h - 1)
            /\ deep' = (deep \/ (bfile.has /\ h <= Max2(bfile.off, bfile.off + Len(bfile.blocks) - 1 - P)))
            /\ UNCHANGED <<hfile, bfile, pc, savedTip>>

\* ---------------------------------------------------------------- Save and Clean, write by write
WriteHeaderFiles(next) ==
    /\ pc = "idle"
    /\ hfile' = SubSeq(hfile, 1, off) \o SubSeq(chain, off + 1, Len(chain))
    /\ pc' = next
    /\ UNCHANGED <<chain, off, par, nextId, bfile, savedTip, deep>>

WriteBranchFile ==
    /\ pc \in {"save1", "clean1"}
    \* Branch.Save keeps what the stored file holds below the part that is in memory now
    /\ bfile' = IF bfile.has /\ bfile.off <= off
                THEN [has |-> TRUE, off |-> bfile.off,
                      blocks |-> SubSeq(bfile.blocks, 1, off - bfile.off) \o SubSeq(chain, off + 1, Len(chain))]
                ELSE [has |-> TRUE, off |-> off, blocks |-> SubSeq(chain, off + 1, Len(chain))]
    /\ deep' = FALSE
    /\ IF pc = "save1" THEN savedTip' = Tip /\ UNCHANGED off
       ELSE off' = Max2(off, Tip - P) /\ UNCHANGED savedTip       \* Clean prunes memory afterwards
    /\ pc' = "idle"
    /\ UNCHANGED <<chain, par, nextId, hfile>>

Next == Extend \/ (\E h \in 1..MaxLen : Reorg(h))
        \/ WriteHeaderFiles("save1") \/ WriteHeaderFiles("clean1") \/ WriteBranchFile
Spec == Init /\ [][Next]_vars

\* ---------------------------------------------------------------- what a Load would report now
\* Load reads the main branch from its file, keeps the last P headers of it in memory and serves everything below
\* from the header files.
StoredTip == bfile.off + Len(bfile.blocks) - 1
LoadOff == Max2(bfile.off, StoredTip - P)
Loaded == IF bfile.has THEN SubSeq(hfile, 1, LoadOff) \o SubSeq(bfile.blocks, LoadOff - bfile.off + 1, Len(bfile.blocks))
          ELSE hfile                                    \* no branch index: the header files are migrated
Linked(s) == /\ Len(s) >= 1 /\ s[1] = 0
             /\ \A i \in 2..Len(s) : par[s[i]] = s[i - 1]
\* C12: linked from genesis, made of accepted blocks (every id was accepted), at least the work of the
\* last completed Save
CrashSound == Linked(Loaded) /\ Len(Loaded) - 1 >= savedTip
CrashSoundShallow == ~deep => CrashSound
TypeOK == /\ off \in 0..MaxLen /\ off <= Tip /\ Len(hfile) >= 1
=============================================================================
